//! Simulated worker pool for the controlled-scheduler build of the engine.
//!
//! Under `--cfg chess_verif_shuttle` the engine's `par_iter()` resolves to the
//! trait below instead of rayon's, and its `Arc`/`RwLock` to shuttle's. The
//! root tasks of a parallel search / perft then run on W *simulated* worker
//! threads (shuttle threads), and shuttle's scheduler — seeded random, PCT,
//! uniform-random-walk, or a replayed schedule — decides every interleaving of
//! the workers at each access to a shuttle synchronisation primitive.
//!
//! What is modelled: a pool of W workers taking root tasks from a shared queue.
//! Which pending task a free worker takes is a seeded choice drawn from
//! `shuttle::rand` (so it is part of the recorded, replayable schedule):
//! in order with probability 1 - steal, otherwise any pending task (work
//! stealing). `collect` is order-preserving, exactly like rayon's.

use std::sync::atomic::{AtomicUsize, Ordering};

pub mod sync {
    pub use shuttle::sync::{Arc, RwLock};
}

pub mod prelude {
    pub use crate::SimParallelSlice;
}

static WORKERS: AtomicUsize = AtomicUsize::new(4);
static STEAL_PERMILLE: AtomicUsize = AtomicUsize::new(100);
static POOL_RUNS: AtomicUsize = AtomicUsize::new(0);
static TASKS_RUN: AtomicUsize = AtomicUsize::new(0);
static OUT_OF_ORDER_PICKS: AtomicUsize = AtomicUsize::new(0);
static TRACE: std::sync::Mutex<Vec<u32>> = std::sync::Mutex::new(Vec::new());

fn trace(kind: u32, task: usize) {
    let switches = shuttle::current::context_switches() as u32;
    let mut t = TRACE.lock().unwrap();
    if t.len() < 100_000 {
        t.push(kind);
        t.push(task as u32);
        t.push(switches);
    }
}

/// Takes the (event kind, task index, context switches so far) trace of root-task
/// starts (kind 1) and ends (kind 2) recorded since the last call: a coarse
/// signature of the interleaving an execution followed.
pub fn take_trace() -> Vec<u32> {
    std::mem::take(&mut *TRACE.lock().unwrap())
}

/// Number of simulated workers (>= 1) and the per-mille probability that a
/// free worker takes a pending task other than the first one.
pub fn configure(workers: usize, steal_permille: usize) {
    WORKERS.store(workers.max(1), Ordering::SeqCst);
    STEAL_PERMILLE.store(steal_permille.min(1000), Ordering::SeqCst);
}

/// (pool invocations, root tasks executed, out-of-order task picks) since start.
pub fn stats() -> (usize, usize, usize) {
    (
        POOL_RUNS.load(Ordering::SeqCst),
        TASKS_RUN.load(Ordering::SeqCst),
        OUT_OF_ORDER_PICKS.load(Ordering::SeqCst),
    )
}

pub trait SimParallelSlice<T: Sync> {
    fn par_iter(&self) -> SimParIter<'_, T>;
}

impl<T: Sync> SimParallelSlice<T> for [T] {
    fn par_iter(&self) -> SimParIter<'_, T> {
        SimParIter { items: self }
    }
}

pub struct SimParIter<'a, T> {
    items: &'a [T],
}

impl<'a, T: Sync> SimParIter<'a, T> {
    pub fn map<R, F>(self, f: F) -> SimMap<'a, T, F>
    where
        F: Fn(&'a T) -> R + Sync + Send,
        R: Send,
    {
        SimMap {
            items: self.items,
            f,
        }
    }
}

pub struct SimMap<'a, T, F> {
    items: &'a [T],
    f: F,
}

impl<'a, T: Sync, R: Send, F: Fn(&'a T) -> R + Sync + Send> SimMap<'a, T, F> {
    fn run(self) -> Vec<R> {
        use shuttle::rand::Rng;

        let n = self.items.len();
        POOL_RUNS.fetch_add(1, Ordering::SeqCst);
        if n == 0 {
            return Vec::new();
        }
        let workers = WORKERS.load(Ordering::SeqCst).clamp(1, n);
        let steal = STEAL_PERMILLE.load(Ordering::SeqCst) as u32;
        let pending: shuttle::sync::Mutex<Vec<usize>> = shuttle::sync::Mutex::new((0..n).collect());
        let items = self.items;
        let f = &self.f;
        let pending = &pending;

        let mut slots: Vec<Option<R>> = (0..n).map(|_| None).collect();
        let produced: Vec<Vec<(usize, R)>> = shuttle::thread::scope(|scope| {
            let handles: Vec<_> = (0..workers)
                .map(|_| {
                    scope.spawn(move || {
                        let mut out: Vec<(usize, R)> = Vec::new();
                        loop {
                            let index = {
                                let mut queue = pending.lock().unwrap();
                                if queue.is_empty() {
                                    break;
                                }
                                let mut position = 0;
                                if queue.len() > 1 && steal > 0 {
                                    let mut rng = shuttle::rand::thread_rng();
                                    if rng.gen_range(0..1000u32) < steal {
                                        position = rng.gen_range(0..queue.len());
                                        if position != 0 {
                                            OUT_OF_ORDER_PICKS.fetch_add(1, Ordering::SeqCst);
                                        }
                                    }
                                }
                                queue.remove(position)
                            };
                            TASKS_RUN.fetch_add(1, Ordering::SeqCst);
                            trace(1, index);
                            let value = f(&items[index]);
                            trace(2, index);
                            out.push((index, value));
                        }
                        out
                    })
                })
                .collect();
            handles
                .into_iter()
                .map(|handle| handle.join().unwrap())
                .collect()
        });
        for (index, value) in produced.into_iter().flatten() {
            slots[index] = Some(value);
        }
        slots
            .into_iter()
            .map(|slot| slot.expect("simpool: a root task produced no result"))
            .collect()
    }

    /// Order-preserving, like rayon's `collect` on an indexed parallel iterator.
    pub fn collect<C: FromIterator<R>>(self) -> C {
        self.run().into_iter().collect()
    }

    pub fn sum<S: std::iter::Sum<R>>(self) -> S {
        self.run().into_iter().sum()
    }
}
