//! History scenarios (build A): seeded operation sequences against engine
//! objects that outlive a call — the board with its undo stacks and incremental
//! key, one long-lived move generator with its two caches — checked step by
//! step against the reference model. Undo (rollback) is a generated operation.
//! Serves C02 C04 C05 C06 C12 C16 C17.

use std::collections::HashMap;

use chess::alpha_beta_searcher::{alpha_beta_search, SearchContext};
use chess::board::Board;
use chess::chess_move::algebraic_notation::enumerate_candidate_moves_with_algebraic_notation;
use chess::chess_move::chess_move::ChessMove;
use chess::evaluate::{game_ending, player_is_in_check, player_is_in_checkmate, GameEnding};
use chess::move_generator::MoveGenerator;

use crate::eng::*;
use crate::gen::{choose_move, choose_move_seen, choose_start, Policy, Seen, StartKind};
use crate::model::{move_effect, verdict, Mv, Pos, Side, Verdict, ALL_P, BK, BQ, P, WK, WQ};
use crate::plan::{Op, Outcome, Plan, Stats, Violation};
use crate::prng::{mix, Digest, Rng};
use crate::{set_phase, Tier};

fn kind_name(m: &Mv) -> &'static str {
    if m.castle.is_some() {
        "castle"
    } else if m.ep {
        "en-passant"
    } else if m.promo.is_some() {
        if m.capture == Some(P::Rook) {
            "promotion-capturing-rook"
        } else if m.capture.is_some() {
            "promotion-capture"
        } else {
            "promotion"
        }
    } else if m.double {
        "double-step"
    } else if m.capture == Some(P::Rook) {
        "capture-of-rook"
    } else if m.capture.is_some() {
        "capture"
    } else if m.piece == P::Pawn {
        "pawn-move"
    } else if m.piece == P::King {
        "king-move"
    } else if m.piece == P::Rook {
        "rook-move"
    } else {
        "quiet"
    }
}

// ------------------------------------------------------------------ generation

struct GenCfg {
    starts: Vec<(StartKind, usize)>,
    lrus: Vec<usize>,
    policies: Vec<Policy>,
    min_len: usize,
    max_len: usize,
    /// weights for: Make, Undo, QueryMoves, QueryAttacks, QueryVerdict, Annotate, Rebuild, Distinct, Bracket
    weights: [usize; 9],
    brackets: Vec<u8>,
    register: bool,
    /// probability (per mille) that a run is a systematic DFS walk instead of a random history
    dfs_permille: usize,
    max_plies: usize,
}

fn cfg_for(property: &str, tier: Tier) -> GenCfg {
    let thorough = tier == Tier::Thorough;
    let all_starts = vec![
        (StartKind::Initial, 3),
        (StartKind::Suite, 2),
        (StartKind::Special, 4),
        (StartKind::Random, 3),
    ];
    match property {
        "C02" => GenCfg {
            starts: all_starts,
            lrus: vec![1, 2, 7, 64, 4096, 100_000],
            policies: vec![Policy::Spicy, Policy::Spicy, Policy::Uniform, Policy::Shuffle, Policy::Lookalike],
            min_len: 30,
            max_len: if thorough { 260 } else { 140 },
            weights: [40, 22, 22, 8, 0, 4, 0, 0, 4],
            brackets: vec![1, 2, 3, 5, 7],
            register: false,
            dfs_permille: 400,
            max_plies: 80,
        },
        "C04" => GenCfg {
            starts: all_starts,
            lrus: vec![7, 64, 4096],
            policies: vec![Policy::Spicy, Policy::Spicy, Policy::Uniform, Policy::Hunt, Policy::Shuffle],
            min_len: 20,
            max_len: if thorough { 400 } else { 120 },
            weights: [50, 30, 0, 0, 0, 0, 0, 0, 12],
            brackets: vec![0, 1, 2, 3, 4, 5, 6, 7],
            register: false,
            dfs_permille: 150,
            max_plies: if thorough { 400 } else { 120 },
        },
        "C05" => GenCfg {
            starts: all_starts,
            lrus: vec![4096],
            policies: vec![Policy::Spicy, Policy::Spicy, Policy::Uniform, Policy::Shuffle],
            min_len: 20,
            max_len: if thorough { 300 } else { 120 },
            weights: [50, 28, 0, 0, 0, 0, 8, 8, 0],
            brackets: vec![],
            register: false,
            dfs_permille: 200,
            max_plies: 200,
        },
        "C06" => GenCfg {
            starts: vec![(StartKind::Special, 4), (StartKind::Endgame, 3), (StartKind::Random, 4), (StartKind::Suite, 2), (StartKind::Initial, 1)],
            lrus: vec![1, 7, 64, 4096],
            policies: vec![Policy::Hunt, Policy::Hunt, Policy::Spicy, Policy::Uniform, Policy::Lookalike],
            min_len: 20,
            max_len: 90,
            weights: [40, 14, 0, 0, 22, 16, 0, 0, 0],
            brackets: vec![],
            register: false,
            dfs_permille: 100,
            max_plies: 40,
        },
        "C12" => GenCfg {
            starts: all_starts,
            lrus: vec![2, 64, 4096],
            policies: vec![Policy::Spicy, Policy::Spicy, Policy::Uniform, Policy::Hunt],
            min_len: 20,
            max_len: if thorough { 300 } else { 100 },
            weights: [50, 25, 4, 0, 4, 6, 0, 0, 10],
            brackets: vec![1, 2, 3, 4, 5, 6, 7],
            register: false,
            dfs_permille: 150,
            max_plies: 300,
        },
        "C16" => GenCfg {
            starts: vec![(StartKind::Initial, 3), (StartKind::Special, 2), (StartKind::Endgame, 3), (StartKind::Random, 2)],
            lrus: vec![64, 4096],
            policies: vec![Policy::Frozen, Policy::Frozen, Policy::Quiet, Policy::Quiet, Policy::Uniform, Policy::Spicy],
            min_len: 120,
            max_len: if thorough { 760 } else { 360 },
            weights: [90, 6, 0, 0, 6, 0, 0, 0, 0],
            brackets: vec![],
            register: false,
            dfs_permille: 0,
            max_plies: if thorough { 700 } else { 330 },
        },
        "C17" => GenCfg {
            starts: vec![(StartKind::Initial, 3), (StartKind::Special, 3), (StartKind::Endgame, 2), (StartKind::Random, 2)],
            lrus: vec![4096],
            policies: vec![Policy::Shuffle, Policy::Shuffle, Policy::Lookalike, Policy::Lookalike, Policy::Spicy],
            min_len: 20,
            max_len: if thorough { 320 } else { 200 },
            weights: [60, 25, 0, 0, 6, 0, 0, 0, 0],
            brackets: vec![],
            register: true,
            dfs_permille: 0,
            max_plies: 150,
        },
        other => panic!("no history scenario for {}", other),
    }
}

fn weighted(rng: &mut Rng, weights: &[usize]) -> usize {
    let total: usize = weights.iter().sum();
    let mut roll = rng.below(total);
    for (i, w) in weights.iter().enumerate() {
        if roll < *w {
            return i;
        }
        roll -= *w;
    }
    weights.len() - 1
}

fn query_op(rng: &mut Rng, cfg: &GenCfg) -> Option<Op> {
    // one of the non-Make/Undo ops according to the weights
    let mut w = cfg.weights;
    w[0] = 0;
    w[1] = 0;
    if w.iter().sum::<usize>() == 0 {
        return None;
    }
    Some(match weighted(rng, &w) {
        2 => Op::QueryMoves,
        3 => Op::QueryAttacks,
        4 => Op::QueryVerdict,
        5 => Op::Annotate,
        6 => Op::Rebuild(rng.next()),
        7 => Op::Distinct(rng.next()),
        _ => Op::Bracket(*rng.pick(&cfg.brackets)),
    })
}

fn gen_dfs(rng: &mut Rng, cfg: &GenCfg, pos: &Pos, depth: usize, width: usize, ops: &mut Vec<Op>, budget: &mut usize) {
    if let Some(q) = query_op(rng, cfg) {
        ops.push(q);
    }
    if depth == 0 || *budget == 0 {
        return;
    }
    let legal = pos.legal_moves();
    if legal.is_empty() {
        return;
    }
    // choose `width` distinct children, biased by the spicy policy
    let mut chosen: Vec<usize> = Vec::new();
    for _ in 0..width.min(legal.len()) {
        let k = choose_move(rng, pos, &legal, Policy::Spicy, None);
        if !chosen.contains(&k) {
            chosen.push(k);
        }
    }
    for k in chosen {
        if *budget == 0 {
            break;
        }
        *budget -= 1;
        ops.push(Op::Make(k as u32));
        gen_dfs(rng, cfg, &pos.make(&legal[k]), depth - 1, width, ops, budget);
        ops.push(Op::Undo);
    }
}

pub fn gen_plan(property: &str, seed: u64, index: u64, tier: Tier) -> Plan {
    let mut rng = Rng::new(mix(seed, index, 0x4853));
    let mut cfg = cfg_for(property, tier);
    let (_kind, start) = choose_start(&mut rng, &cfg.starts);
    let lru = *rng.pick(&cfg.lrus);
    if property == "C02" && rng.below(40) == 0 {
        // soak: one generator lives through a full-width walk of a few hundred thousand positions
        let mut knobs = std::collections::BTreeMap::new();
        knobs.insert("nodes".to_string(), if tier == Tier::Thorough { 1_200_000 } else { 320_000 });
        knobs.insert("depth".to_string(), 5);
        let start = if rng.chance(1, 2) { Pos::startpos() } else { start };
        return Plan {
            property: property.to_string(),
            scenario: "soak-walk".to_string(),
            seed,
            index,
            start_fen: start.to_fen(),
            lru: *rng.pick(&[4096usize, 100_000, 1_000_000]),
            register: false,
            knobs,
            ops: Vec::new(),
            schedule: String::new(),
        };
    }
    let mut ops: Vec<Op> = Vec::new();
    let scenario;
    if rng.below(1000) < cfg.dfs_permille {
        scenario = "dfs-walk";
        let depth = rng.range(2, 4);
        let width = rng.range(2, 6);
        let mut budget = if tier == Tier::Thorough { 400 } else { 150 };
        gen_dfs(&mut rng, &cfg, &start, depth, width, &mut ops, &mut budget);
    } else {
        scenario = "random-history";
        let mut policy = *rng.pick(&cfg.policies);
        let c06_late = property == "C06" && mix(seed, index, 0x4c41) % 10 == 0;
        if c06_late {
            // verdicts and annotations do not depend on the clocks: a long quiet stretch first
            cfg.max_plies = 150;
            cfg.min_len = 160;
            cfg.max_len = 220;
        }
        if property == "C05" && index % 9 == 4 {
            // long quiet stretches: the key must not depend on how long the game has been going on
            cfg.weights = [90, 4, 0, 0, 0, 0, 3, 0, 0];
            cfg.min_len = 110;
            cfg.max_len = 200;
            cfg.max_plies = 260;
            policy = if rng.chance(1, 2) { Policy::Frozen } else { Policy::Shuffle };
        }
        if property == "C04" && index % 7 == 5 {
            // deep stacks: a long game without the expensive bracket calls, then a complete unwind
            cfg.weights = [90, 3, 0, 0, 0, 0, 0, 0, 0];
            cfg.min_len = 150;
            cfg.max_len = 320;
            cfg.max_plies = 400;
            policy = if rng.chance(1, 2) { Policy::Frozen } else { Policy::Uniform };
        }
        if property == "C04" && index % 3 == 0 && rng.chance(3, 4) {
            // registered runs: recurrences matter, so shuffle
            policy = Policy::Shuffle;
        }
        let len = rng.range(cfg.min_len, cfg.max_len);
        let mut stack: Vec<Pos> = vec![start.clone()];
        let mut own: Vec<Option<Mv>> = vec![None, None]; // last move per side
        let mut seen = Seen::default();
        let mut own_stack: Vec<(usize, Option<Mv>)> = Vec::new();
        while ops.len() < len {
            let pos = stack.last().unwrap().clone();
            let mut choice = weighted(&mut rng, &cfg.weights);
            if c06_late {
                if stack.len() <= 101 {
                    choice = 0;
                    policy = Policy::Frozen;
                } else {
                    policy = Policy::Hunt;
                }
            }
            match choice {
                0 => {
                    if stack.len() > cfg.max_plies {
                        ops.push(Op::Undo);
                        stack.pop();
                        if let Some((side, prev)) = own_stack.pop() {
                            own[side] = prev;
                        }
                        continue;
                    }
                    let legal = pos.legal_moves();
                    if legal.is_empty() {
                        if stack.len() > 1 {
                            ops.push(Op::Undo);
                            stack.pop();
                            if let Some((side, prev)) = own_stack.pop() {
                                own[side] = prev;
                            }
                        } else {
                            break;
                        }
                        continue;
                    }
                    let side = pos.stm as usize;
                    let k = choose_move_seen(&mut rng, &pos, &legal, policy, own[side].as_ref(), &mut seen);
                    ops.push(Op::Make(k as u32));
                    own_stack.push((side, own[side]));
                    own[side] = Some(legal[k]);
                    stack.push(pos.make(&legal[k]));
                }
                1 => {
                    if stack.len() > 1 {
                        // sometimes a deep rollback (detour), usually one step
                        let n = if rng.chance(1, 6) { rng.range(1, (stack.len() - 1).min(12)) } else { 1 };
                        for _ in 0..n {
                            ops.push(Op::Undo);
                            stack.pop();
                            if let Some((side, prev)) = own_stack.pop() {
                                own[side] = prev;
                            }
                        }
                    }
                }
                _ => {
                    let mut w = cfg.weights;
                    w[0] = 0;
                    w[1] = 0;
                    let op = match choice {
                        2 => Op::QueryMoves,
                        3 => Op::QueryAttacks,
                        4 => Op::QueryVerdict,
                        5 => Op::Annotate,
                        6 => Op::Rebuild(rng.next()),
                        7 => Op::Distinct(rng.next()),
                        _ => Op::Bracket(*rng.pick(&cfg.brackets)),
                    };
                    ops.push(op);
                }
            }
        }
    }
    // deep unwind: some runs end by rolling the whole history back, however long it is
    if matches!(property, "C04" | "C05" | "C12" | "C16" | "C17") && scenario == "random-history" && rng.chance(1, 3) {
        let depth = ops.iter().fold(0i64, |d, o| match o {
            Op::Make(_) => d + 1,
            Op::Undo => (d - 1).max(0),
            _ => d,
        });
        for _ in 0..depth {
            ops.push(Op::Undo);
        }
    }
    Plan {
        property: property.to_string(),
        scenario: scenario.to_string(),
        seed,
        index,
        start_fen: start.to_fen(),
        lru,
        register: cfg.register || (property == "C04" && index % 3 == 0),
        knobs: Default::default(),
        ops,
        schedule: String::new(),
    }
}

// ------------------------------------------------------------------- execution

fn sorted_keys(moves: &[ChessMove]) -> Vec<MoveKey> {
    let mut v: Vec<MoveKey> = moves.iter().map(key_of_engine).collect();
    v.sort();
    v
}

fn ending_code(e: &Option<GameEnding>) -> u8 {
    match e {
        None => 0,
        Some(GameEnding::Checkmate) => 1,
        Some(GameEnding::Stalemate) => 2,
        Some(GameEnding::Draw) => 3,
    }
}

fn fresh_generator() -> MoveGenerator {
    MoveGenerator::new()
}

/// Soak: the long-lived generator G answers move and attack queries at every node of a
/// full-width walk (hundreds of thousands of positions, so its caches hold what a real
/// perft or game accumulates); the reference generator is replaced every 1000 nodes, so it
/// has seen almost nothing.
fn exec_soak(plan: &Plan) -> Outcome {
    let mut out = Outcome::default();
    let mut stats = Stats::default();
    let mut digest = Digest::new();
    chess::verif_hooks::set_lru_capacity(plan.lru);
    let start = match Pos::from_fen(&plan.start_fen) {
        Some(mut p) => {
            p.half = 0;
            p.plies = 0;
            p
        }
        None => {
            out.desync = Some("bad-start-fen".into());
            return out;
        }
    };
    set_phase("query");
    let budget = plan.knob("nodes", 300_000) as u64;
    let max_depth = plan.knob("depth", 4) as usize;
    let mut board = build_board(&start, None);
    let mut gen = fresh_generator();
    let mut reference = fresh_generator();
    let mut nodes: u64 = 0;
    let mut evals: u64 = 0;
    // explicit stack: (position, legal moves, next index, engine move that led here)
    let mut stack: Vec<(Pos, Vec<Mv>, usize, Option<ChessMove>)> = vec![(start.clone(), start.legal_moves(), 0, None)];
    let mut fresh_node = true;
    'walk: while let Some(top) = stack.last_mut() {
        if fresh_node {
            nodes += 1;
            if nodes % 1000 == 0 {
                reference = fresh_generator();
                stats.bump("reference-generator-replaced");
            }
            let cur = &top.0;
            let sides: &[Side] = if cur.ep.is_none() && !cur.in_check(cur.stm) { &[Side::White, Side::Black] } else if cur.stm == Side::White { &[Side::White] } else { &[Side::Black] };
            for side in sides {
                let a = gen.get_attack_targets(&board, color(*side));
                let b = reference.get_attack_targets(&board, color(*side));
                evals += 1;
                if a != b {
                    out.violation = Some(Violation {
                        class: "C02/long-lived-generator-attacks-differ-from-fresh/after-soak".to_string(),
                        detail: format!("{} attacks by {:?}: generator that has served {} positions {:016x}, young generator {:016x}", cur.to_fen(), side, nodes, a.0, b.0),
                        at_op: 0,
                    });
                    break 'walk;
                }
            }
            let a = sorted_keys(&gen.generate_moves(&mut board, color(cur.stm)));
            let b = sorted_keys(&reference.generate_moves(&mut board, color(cur.stm)));
            evals += 1;
            digest.eat(a.len() as u64);
            if a != b {
                out.violation = Some(Violation {
                    class: "C02/long-lived-generator-moves-differ-from-fresh/after-soak".to_string(),
                    detail: format!("{}: generator that has served {} positions gives {} moves, young generator {}", cur.to_fen(), nodes, a.len(), b.len()),
                    at_op: 0,
                });
                break 'walk;
            }
            if nodes >= budget {
                break 'walk;
            }
        }
        let depth_here = stack.len() - 1;
        let top = stack.last_mut().unwrap();
        if depth_here >= max_depth || top.2 >= top.1.len() {
            // leave this node
            let done = stack.pop().unwrap();
            if let Some(em) = done.3 {
                board.toggle_turn();
                if em.undo(&mut board).is_err() {
                    out.desync = Some("soak: undo failed".into());
                    break 'walk;
                }
            }
            fresh_node = false;
            continue;
        }
        let m = top.1[top.2];
        top.2 += 1;
        let next = top.0.make(&m);
        let em = to_engine_move(&m, top.0.stm);
        if em.apply(&mut board).is_err() {
            out.desync = Some("soak: apply failed".into());
            break 'walk;
        }
        board.toggle_turn();
        let legal = next.legal_moves();
        stack.push((next, legal, 0, Some(em)));
        fresh_node = true;
    }
    stats.add("soak/positions-served-by-one-generator", nodes);
    stats.add("fault/cache-soak", 1);
    stats.add("steps", nodes);
    out.stats = stats;
    out.digest = digest.0;
    out.oracle_evals = evals;
    out
}

pub fn exec(plan: &Plan) -> Outcome {
    if plan.scenario == "soak-walk" {
        return exec_soak(plan);
    }
    let prop = plan.property.as_str();
    let mut out = Outcome::default();
    let mut stats = Stats::default();
    let mut digest = Digest::new();
    let mut evals: u64 = 0;

    chess::verif_hooks::set_lru_capacity(plan.lru);
    let start = match Pos::from_fen(&plan.start_fen) {
        Some(p) => {
            let mut p = p;
            p.half = 0;
            p.plies = 0;
            p
        }
        None => {
            out.desync = Some("bad-start-fen".into());
            return out;
        }
    };
    let monitor = prop == "C12";
    if monitor {
        install_monitor();
        let _ = take_monitor_violation();
    }

    set_phase("setup");
    let mut board: Board = build_board(&start, None);
    let mut gen = fresh_generator();
    let mut model: Vec<Pos> = vec![start.clone()];
    let mut applied: Vec<(ChessMove, Mv)> = Vec::new();
    let mut snaps: Vec<Snapshot> = Vec::new();
    let mut multiset: HashMap<u64, u32> = HashMap::new();
    let mut seen_placements: HashMap<u64, u64> = HashMap::new(); // placement -> fingerprint of (rights, ep, stm)
    let mut max_plies_seen = 0u32;

    if plan.register {
        set_phase("register");
        let c = board.count_current_position() as u32;
        *multiset.entry(start.fingerprint()).or_insert(0) += 1;
        evals += 1;
        if prop == "C17" && c != 1 {
            out.violation = Some(Violation {
                class: "C17/occurrence-count/first-registration-of-start-position".into(),
                detail: format!("count_current_position returned {} for the first registration", c),
                at_op: 0,
            });
        }
    }

    macro_rules! violate {
        ($i:expr, $class:expr, $detail:expr) => {{
            out.violation = Some(Violation {
                class: $class,
                detail: $detail,
                at_op: $i,
            });
            break;
        }};
    }

    for (i, op) in plan.ops.iter().enumerate() {
        if out.violation.is_some() {
            break;
        }
        let cur = model.last().unwrap().clone();
        if cur.fingerprint() % 64 == 0 {
            out.state_sample.push(cur.fingerprint());
        }
        if i % 16 == 7 && matches!(prop, "C04" | "C17" | "C16") {
            // the game goes on on a copy of the board: a copy is the same board, history included
            set_phase("make");
            let copy = board.clone();
            evals += 1;
            stats.bump("fault/continued-on-a-copy-of-the-board");
            // how much undo history a copy physically carries is not an observable; that it can be
            // unwound like the original is judged by the undos that follow
            let mut a = snapshot(&board);
            let mut b = snapshot(&copy);
            a.depths = [0; 4];
            b.depths = [0; 4];
            if let Some(field) = snapshot_diff(&a, &b) {
                let owner = match field {
                    "halfmove-clock" | "fullmove-counter" => "C16",
                    "max-seen-position-count" | "repetition-map" => "C17",
                    _ => "C04",
                };
                if prop == "C04" || prop == owner {
                    violate!(i, format!("{}/copy-of-the-board-differs/{}", prop, field), format!("{}: {} of a clone differs from the original", cur.to_fen(), field));
                }
            }
            board = copy;
        }
        match op {
            Op::Make(k) => {
                let legal = cur.legal_moves();
                if legal.is_empty() {
                    stats.bump("make-skipped-terminal");
                    continue;
                }
                let m = legal[*k as usize % legal.len()];
                let em = to_engine_move(&m, cur.stm);
                let before = snapshot(&board);
                set_phase("make");
                let res = em.apply(&mut board);
                if res.is_err() {
                    if matches!(prop, "C04" | "C12" | "C05" | "C16" | "C17") {
                        violate!(
                            i,
                            format!("{}/apply-of-legal-move-failed/{}", prop, kind_name(&m)),
                            format!("apply({}) returned {:?} in {}", m.uci(), res, cur.to_fen())
                        );
                    }
                    out.desync = Some(format!("apply-failed {} in {}", m.uci(), cur.to_fen()));
                    break;
                }
                board.toggle_turn();
                let next = cur.make(&m);
                stats.bump("op-make");
                stats.bump(&format!("move-kind/{}", kind_name(&m)));
                if m.promo.is_some() && m.capture == Some(P::Rook) && (cur.rights & !next.rights) != 0 {
                    stats.bump("probe/promotion-captured-rook-with-rights");
                }
                if m.ep {
                    stats.bump("probe/en-passant-played");
                }
                if let Some(e) = next.ep {
                    // live ep opportunity: an enemy pawn beside the double-stepped pawn
                    let _ = e;
                    if next.legal_moves().iter().any(|x| x.ep) {
                        stats.bump("probe/live-en-passant-opportunity");
                    }
                }
                max_plies_seen = max_plies_seen.max(next.plies);
                if !same_position(&board, &next) {
                    if prop == "C12" {
                        // not judged here (C03's subject); stop the run
                    }
                    out.desync = Some(format!("successor-differs after {} in {}", m.uci(), cur.to_fen()));
                    break;
                }
                // look-alike probe: same placement seen before with different rights/ep/side
                let extra = (next.rights as u64) << 16 | (next.ep.map_or(255, |e| e) as u64) << 8 | next.stm as u64;
                match seen_placements.get(&next.placement_fingerprint()) {
                    Some(prev) if *prev != extra => stats.bump("probe/lookalike-pair-reached"),
                    _ => {}
                }
                seen_placements.insert(next.placement_fingerprint(), extra);
                digest.eat(board.current_position_hash());
                snaps.push(before.clone());
                applied.push((em, m));
                model.push(next.clone());

                if prop == "C12" {
                    evals += 1;
                    let r0 = before.rights;
                    let r1 = board.peek_castle_rights();
                    if r1 & !r0 != 0 {
                        violate!(
                            i,
                            format!("C12/castling-rights-gained-a-bit/{}", kind_name(&m)),
                            format!("rights {:04b} -> {:04b} by {} in {}", r0, r1, m.uci(), cur.to_fen())
                        );
                    }
                    if let Some(what) = invariant_violation(&board) {
                        violate!(
                            i,
                            format!("C12/{}/after-make-{}", what, kind_name(&m)),
                            format!("after {} in {}", m.uci(), cur.to_fen())
                        );
                    }
                }
                if prop == "C05" {
                    evals += 1;
                    let scratch = build_board(&next, None);
                    if scratch.current_position_hash() != board.current_position_hash() {
                        violate!(
                            i,
                            format!("C05/history-key-differs-from-scratch-key/after-make-{}", kind_name(&m)),
                            format!(
                                "after {} from {}: history key {:016x}, from-scratch key {:016x} for {}",
                                m.uci(),
                                cur.to_fen(),
                                board.current_position_hash(),
                                scratch.current_position_hash(),
                                next.to_fen()
                            )
                        );
                    }
                }
                if prop == "C16" {
                    evals += 1;
                    let h = board.halfmove_clock() as u32;
                    let f = board.fullmove_clock() as u32;
                    if next.plies >= 255 {
                        stats.bump("probe/ply-255-or-more");
                    }
                    if next.half >= 100 {
                        stats.bump("probe/halfmove-100-or-more");
                    }
                    if h != next.half {
                        violate!(
                            i,
                            format!("C16/halfmove-clock/after-{}", kind_name(&m)),
                            format!("halfmove_clock {} but {} plies since last capture or pawn move (after {} in {})", h, next.half, m.uci(), cur.to_fen())
                        );
                    }
                    if f != 1 + next.plies {
                        violate!(
                            i,
                            format!("C16/fullmove-counter/at-ply-{}", if next.plies >= 255 { "255-or-more".to_string() } else { "below-255".to_string() }),
                            format!("fullmove_clock {} after {} plies (expected {})", f, next.plies, 1 + next.plies)
                        );
                    }
                    // move-count draw
                    set_phase("verdict");
                    let e = game_ending(&mut board, &mut gen, color(next.stm));
                    let terminal = next.legal_moves().is_empty();
                    if !terminal {
                        let is_draw = matches!(e, Some(GameEnding::Draw));
                        if is_draw != (next.half >= 100) {
                            violate!(
                                i,
                                format!("C16/move-count-draw/{}", if is_draw { "declared-early" } else { "not-declared-at-100" }),
                                format!("game_ending = {:?} with {} plies since last capture or pawn move", e, next.half)
                            );
                        }
                    }
                }
                if plan.register {
                    set_phase("register");
                    let c = board.count_current_position() as u32;
                    let entry = multiset.entry(next.fingerprint()).or_insert(0);
                    *entry += 1;
                    let expect = *entry;
                    if expect >= 2 {
                        stats.bump("probe/true-recurrence");
                    }
                    if expect >= 3 {
                        stats.bump("probe/third-occurrence");
                    }
                    if prop == "C17" && next.half < 100 && next.has_legal_move() {
                        set_phase("verdict");
                        let e = game_ending(&mut board, &mut gen, color(next.stm));
                        let is_draw = matches!(e, Some(GameEnding::Draw));
                        evals += 1;
                        if expect == 3 && !is_draw {
                            violate!(
                                i,
                                "C17/third-registered-occurrence-not-reported-as-draw".to_string(),
                                format!("{} registered for the third time (plies since capture or pawn move: {}) but game_ending = {:?}", next.to_fen(), next.half, e)
                            );
                        }
                        if expect < 3 && is_draw {
                            violate!(
                                i,
                                "C17/draw-reported-before-the-third-occurrence".to_string(),
                                format!("{} registered {} time(s) but game_ending = {:?}", next.to_fen(), expect, e)
                            );
                        }
                        set_phase("register");
                    }
                    if prop == "C17" {
                        evals += 1;
                        let ms = board.max_seen_position_count() as u32;
                        if c != expect || ms != expect {
                            // discriminate look-alikes
                            let same_placement_other = model
                                .iter()
                                .take(model.len() - 1)
                                .any(|p| p.placement_fingerprint() == next.placement_fingerprint() && p.fingerprint() != next.fingerprint());
                            violate!(
                                i,
                                format!(
                                    "C17/occurrence-count/{}",
                                    if c > expect && same_placement_other { "look-alike-counted-as-recurrence" } else if c < expect { "recurrence-missed" } else { "wrong-count" }
                                ),
                                format!("count_current_position {} (max_seen {}) but {} has been registered {} time(s)", c, ms, next.to_fen(), expect)
                            );
                        }
                    }
                }
            }
            Op::Undo => {
                let (em, m) = match applied.pop() {
                    Some(x) => x,
                    None => {
                        stats.bump("undo-skipped-at-start");
                        continue;
                    }
                };
                let top = model.pop().unwrap();
                let prev = model.last().unwrap().clone();
                stats.bump("op-undo");
                stats.bump("fault/rollback");
                if plan.register {
                    set_phase("register");
                    // what unregistering returns is not specified by the property; that it is the exact
                    // inverse is judged by the snapshot below and by every later count
                    let _ = board.uncount_current_position();
                    let entry = multiset.get_mut(&top.fingerprint()).unwrap();
                    *entry -= 1;
                }
                set_phase("undo");
                board.toggle_turn();
                let res = em.undo(&mut board);
                if res.is_err() {
                    if matches!(prop, "C04" | "C12" | "C05" | "C16" | "C17") {
                        violate!(
                            i,
                            format!("{}/undo-of-made-move-failed/{}", prop, kind_name(&m)),
                            format!("undo({}) returned {:?} back to {}", m.uci(), res, prev.to_fen())
                        );
                    }
                    out.desync = Some(format!("undo-failed {}", m.uci()));
                    break;
                }
                let want = snaps.pop().unwrap();
                digest.eat(board.current_position_hash());
                if prop == "C04" || prop == "C17" || prop == "C16" || prop == "C05" || prop == "C12" {
                    evals += 1;
                    let got = snapshot(&board);
                    if let Some(field) = snapshot_diff(&want, &got) {
                        // every history property relies on exact restoration; report under the
                        // property whose subject the differing observable is
                        let owner = match field {
                            "halfmove-clock" | "fullmove-counter" => "C16",
                            "position-key" => "C05",
                            "max-seen-position-count" | "repetition-map" => "C17",
                            _ => "C04",
                        };
                        if prop == "C04" || prop == owner {
                            violate!(
                                i,
                                format!("{}/undo-does-not-restore/{}/{}", prop, field, kind_name(&m)),
                                format!("after undoing {} back to {}: {} differs", m.uci(), prev.to_fen(), field)
                            );
                        }
                    }
                }
                if !same_position(&board, &prev) {
                    out.desync = Some(format!("undo-position-differs {}", m.uci()));
                    break;
                }
                if prop == "C12" {
                    evals += 1;
                    if let Some(what) = invariant_violation(&board) {
                        violate!(i, format!("C12/{}/after-undo-{}", what, kind_name(&m)), format!("after undoing {} back to {}", m.uci(), prev.to_fen()));
                    }
                }
                if prop == "C05" {
                    evals += 1;
                    let scratch = build_board(&prev, None);
                    if scratch.current_position_hash() != board.current_position_hash() {
                        violate!(
                            i,
                            format!("C05/history-key-differs-from-scratch-key/after-undo-{}", kind_name(&m)),
                            format!("after undoing {}: history key {:016x}, from-scratch key {:016x} for {}", m.uci(), board.current_position_hash(), scratch.current_position_hash(), prev.to_fen())
                        );
                    }
                }
                if prop == "C16" {
                    evals += 1;
                    let h = board.halfmove_clock() as u32;
                    let f = board.fullmove_clock() as u32;
                    if h != prev.half || f != 1 + prev.plies {
                        violate!(
                            i,
                            "C16/counters-after-undo".to_string(),
                            format!("after undo: halfmove {} (expected {}), fullmove {} (expected {})", h, prev.half, f, 1 + prev.plies)
                        );
                    }
                }
            }
            Op::QueryMoves => {
                set_phase("query");
                stats.bump("op-query-moves");
                // the same placement with the other side to move is a position only if no en-passant
                // target is live and the side now to move is not in check
                let other_ok = cur.ep.is_none() && !cur.in_check(cur.stm);
                for side in [cur.stm, cur.stm.other()] {
                    if side != cur.stm && !other_ok {
                        continue;
                    }
                    let before_hits = gen.cache_hit_count();
                    let a = sorted_keys(&gen.generate_moves(&mut board, color(side)));
                    if gen.cache_hit_count() > before_hits {
                        stats.bump("probe/move-cache-hit-served");
                    }
                    let mut fresh = fresh_generator();
                    let mut copy = board.clone();
                    let b = sorted_keys(&fresh.generate_moves(&mut copy, color(side)));
                    evals += 1;
                    digest.eat(a.len() as u64);
                    if prop == "C02" && a != b {
                        let extra: Vec<&MoveKey> = a.iter().filter(|x| !b.contains(x)).collect();
                        let missing: Vec<&MoveKey> = b.iter().filter(|x| !a.contains(x)).collect();
                        let ep_involved = extra.iter().chain(missing.iter()).any(|k| k.0 == 2);
                        let castle_involved = extra.iter().chain(missing.iter()).any(|k| k.0 == 3);
                        violate!(
                            i,
                            format!(
                                "C02/long-lived-generator-moves-differ-from-fresh/{}",
                                if ep_involved { "en-passant" } else if castle_involved { "castling" } else { "other" }
                            ),
                            format!(
                                "{} for {:?}: long-lived generator {} moves, fresh generator {} moves; extra {:?} missing {:?} (lru capacity {})",
                                cur.to_fen(), side, a.len(), b.len(), extra, missing, plan.lru
                            )
                        );
                    }
                }
            }
            Op::QueryAttacks => {
                set_phase("query");
                stats.bump("op-query-attacks");
                for side in [cur.stm, cur.stm.other()] {
                    let a = gen.get_attack_targets(&board, color(side));
                    let mut fresh = fresh_generator();
                    let b = fresh.get_attack_targets(&board, color(side));
                    evals += 1;
                    digest.eat(a.0);
                    if prop == "C02" && a != b {
                        violate!(
                            i,
                            "C02/long-lived-generator-attacks-differ-from-fresh".to_string(),
                            format!("{} attacks by {:?}: long-lived {:016x}, fresh {:016x}", cur.to_fen(), side, a.0, b.0)
                        );
                    }
                }
            }
            Op::QueryVerdict => {
                set_phase("verdict");
                stats.bump("op-query-verdict");
                // both colours, the caller setting the turn as the game loops do
                let mut bad: Option<(String, String)> = None;
                for side in [cur.stm, cur.stm.other()] {
                    let view = cur.with_stm(side);
                    if side != cur.stm && (view.in_check(side.other()) || cur.ep.is_some()) {
                        // the position with the other side to move is not a consistent position
                        continue;
                    }
                    board.set_turn(color(side));
                    let chk = player_is_in_check(&board, &mut gen, color(side));
                    let want_chk = view.in_check(side);
                    evals += 1;
                    if want_chk {
                        stats.bump("probe/verdict-in-check");
                    }
                    if chk != want_chk {
                        let mut fresh = fresh_generator();
                        let fresh_chk = player_is_in_check(&board, &mut fresh, color(side));
                        bad = Some((
                            format!("C06/in-check-verdict/{}", if fresh_chk == want_chk { "stale-cache" } else { "wrong" }),
                            format!("{}: player_is_in_check({:?}) = {}, model {}", view.to_fen(), side, chk, want_chk),
                        ));
                        break;
                    }
                    {
                        let mate = player_is_in_checkmate(&mut board, &mut gen, color(side));
                        let want_mate = verdict(&view) == Verdict::Checkmate;
                        evals += 1;
                        if view.half >= 100 {
                            stats.bump("probe/verdict-with-halfmove-100-or-more");
                        }
                        if mate != want_mate {
                            bad = Some((
                                format!("C06/checkmate-verdict/{}", if want_mate { "mate-not-reported" } else { "mate-reported-wrongly" }),
                                format!("{} (plies since capture or pawn move: {}): player_is_in_checkmate({:?}) = {}, model {}", view.to_fen(), view.half, side, mate, want_mate),
                            ));
                            break;
                        }
                    }
                    if view.half < 100 && !plan.register {
                        let e = game_ending(&mut board, &mut gen, color(side));
                        let want = match verdict(&view) {
                            Verdict::Ongoing => 0,
                            Verdict::Checkmate => 1,
                            Verdict::Stalemate => 2,
                        };
                        evals += 1;
                        if want == 1 {
                            stats.bump("probe/verdict-checkmate");
                        }
                        if want == 2 {
                            stats.bump("probe/verdict-stalemate");
                        }
                        if ending_code(&e) != want {
                            let mut fresh = fresh_generator();
                            let fe = game_ending(&mut board, &mut fresh, color(side));
                            bad = Some((
                                format!(
                                    "C06/game-ending-verdict/{}/{}",
                                    ["expected-ongoing", "expected-checkmate", "expected-stalemate"][want as usize],
                                    if ending_code(&fe) == want { "stale-cache" } else { "wrong" }
                                ),
                                format!("{}: game_ending for {:?} = {:?}, model {:?}", view.to_fen(), side, e, verdict(&view)),
                            ));
                            break;
                        }
                    }
                }
                board.set_turn(color(cur.stm));
                if bad.is_none() && prop == "C06" {
                    // the in-check verdict with the king relocated to every square it could stand on:
                    // walks the whole attack map through the public verdict, whatever its representation
                    for side in [Side::White, Side::Black] {
                        let king = match cur.king_sq(side) {
                            Some(k) => k,
                            None => continue,
                        };
                        let other_king = cur.king_sq(side.other());
                        let mut base = cur.clone();
                        base.sq[king as usize] = None;
                        base.rights = 0;
                        base.ep = None;
                        for s in 0..64u8 {
                            if base.sq[s as usize].is_some() {
                                continue;
                            }
                            if let Some(ok) = other_king {
                                if (crate::model::file_of(ok) - crate::model::file_of(s)).abs() <= 1 && (crate::model::rank_of(ok) - crate::model::rank_of(s)).abs() <= 1 {
                                    continue;
                                }
                            }
                            let mut v = base.clone();
                            v.sq[s as usize] = Some((P::King, side));
                            v.stm = side;
                            let b = build_board(&v, None);
                            let got = player_is_in_check(&b, &mut gen, color(side));
                            let want = v.in_check(side);
                            evals += 1;
                            if got != want {
                                let mut fresh = fresh_generator();
                                let fg = player_is_in_check(&b, &mut fresh, color(side));
                                bad = Some((
                                    format!("C06/in-check-verdict/king-relocated/{}", if fg == want { "stale-cache" } else { "wrong" }),
                                    format!("{}: player_is_in_check({:?}) = {}, model {}", v.to_fen(), side, got, want),
                                ));
                                break;
                            }
                        }
                        if bad.is_some() {
                            break;
                        }
                    }
                    stats.bump("probe/king-relocation-sweep");
                }
                if let Some((class, detail)) = bad {
                    if prop == "C06" {
                        violate!(i, class, detail);
                    }
                }
            }
            Op::Annotate => {
                set_phase("annotate");
                stats.bump("op-annotate");
                let list = gen.generate_moves_and_lazily_update_chess_move_effects(&mut board, color(cur.stm));
                let legal = cur.legal_moves();
                let want: HashMap<MoveKey, u8> = legal.iter().map(|m| (key_of_model(m), move_effect(&cur, m))).collect();
                let mut got_keys = sorted_keys(&list);
                let mut want_keys: Vec<MoveKey> = want.keys().copied().collect();
                want_keys.sort();
                got_keys.dedup();
                if got_keys != want_keys {
                    if prop == "C06" {
                        out.desync = Some(format!("move-list-differs in {}", cur.to_fen()));
                        break;
                    }
                    continue;
                }
                let mut bad: Option<(String, String)> = None;
                for em in list.iter() {
                    let k = key_of_engine(em);
                    let w = want[&k];
                    let g = effect_code(em.effect());
                    evals += 1;
                    if w == 1 {
                        stats.bump("probe/annotated-check");
                    }
                    if w == 2 {
                        stats.bump("probe/annotated-checkmate");
                    }
                    if g != w {
                        let kind = match k.0 {
                            1 => "promotion",
                            2 => "en-passant",
                            3 => "castle",
                            _ => "standard",
                        };
                        bad = Some((
                            format!("C06/move-annotation/{}-expected-{}-got-{}", kind, ["none", "check", "checkmate"][w as usize], ["none", "check", "checkmate", "not-calculated"][g as usize]),
                            format!("{}: move {:?} annotated {} but the model classifies its successor as {}", cur.to_fen(), k, g, w),
                        ));
                        break;
                    }
                }
                if let Some((class, detail)) = bad {
                    if prop == "C06" {
                        violate!(i, class, detail);
                    }
                }
            }
            Op::Rebuild(s) => {
                set_phase("rebuild");
                stats.bump("op-rebuild");
                let mut r1 = Rng::new(*s);
                let mut r2 = Rng::new(s.wrapping_add(0x5bd1e995));
                let b1 = build_board(&cur, Some(&mut r1));
                let b2 = build_board(&cur, Some(&mut r2));
                evals += 3;
                digest.eat(b1.current_position_hash());
                if prop == "C05" {
                    let copy = board.clone();
                    if copy.current_position_hash() != board.current_position_hash() {
                        violate!(
                            i,
                            "C05/copy-of-a-board-has-a-different-key".to_string(),
                            format!("{}: key {:016x}, key of its clone {:016x}", cur.to_fen(), board.current_position_hash(), copy.current_position_hash())
                        );
                    }
                    if b1.current_position_hash() != b2.current_position_hash() {
                        violate!(
                            i,
                            "C05/key-depends-on-construction-order".to_string(),
                            format!("{}: two from-scratch constructions give {:016x} and {:016x}", cur.to_fen(), b1.current_position_hash(), b2.current_position_hash())
                        );
                    }
                    if b1.current_position_hash() != board.current_position_hash() {
                        violate!(
                            i,
                            "C05/history-key-differs-from-scratch-key/at-rebuild".to_string(),
                            format!("{}: history key {:016x}, from-scratch key {:016x}", cur.to_fen(), board.current_position_hash(), b1.current_position_hash())
                        );
                    }
                }
            }
            Op::Distinct(s) => {
                set_phase("rebuild");
                stats.bump("op-distinct");
                if prop != "C05" {
                    continue;
                }
                let mut r = Rng::new(*s);
                let base = board.current_position_hash();
                let mut variants: Vec<(&'static str, Pos)> = Vec::new();
                // toggle one piece
                let occupied: Vec<u8> = (0..64u8).filter(|&q| cur.sq[q as usize].is_some() && cur.sq[q as usize].unwrap().0 != P::King).collect();
                let empty: Vec<u8> = (0..64u8).filter(|&q| cur.sq[q as usize].is_none() && cur.ep != Some(q)).collect();
                if !occupied.is_empty() {
                    let q = *r.pick(&occupied);
                    let mut v = cur.clone();
                    v.sq[q as usize] = None;
                    v.rights = 0;
                    let mut c = cur.clone();
                    c.rights = 0;
                    // compare like with like: both without rights
                    variants.push(("piece-removed", v));
                    let _ = c;
                    // recolour / retype
                    let (p, side) = cur.sq[q as usize].unwrap();
                    let mut v2 = cur.clone();
                    let np = *r.pick(&ALL_P.iter().copied().filter(|x| *x != p && *x != P::King).collect::<Vec<_>>());
                    v2.sq[q as usize] = Some((np, side));
                    v2.rights = 0;
                    variants.push(("piece-type-changed", v2));
                    let mut v3 = cur.clone();
                    v3.sq[q as usize] = Some((p, side.other()));
                    v3.rights = 0;
                    variants.push(("piece-colour-changed", v3));
                    if !empty.is_empty() {
                        let t = *r.pick(&empty);
                        let mut v4 = cur.clone();
                        v4.sq[q as usize] = None;
                        v4.sq[t as usize] = Some((p, side));
                        v4.rights = 0;
                        variants.push(("piece-moved", v4));
                    }
                }
                if !empty.is_empty() {
                    let t = *r.pick(&empty);
                    let mut v = cur.clone();
                    v.sq[t as usize] = Some((*r.pick(&[P::Knight, P::Bishop, P::Rook, P::Queen]), if r.chance(1, 2) { Side::White } else { Side::Black }));
                    v.rights = 0;
                    variants.push(("piece-added", v));
                }
                // the placement variants above are compared against the current placement with
                // rights cleared as well (a board may not hold rights its placement does not support)
                let mut norights = cur.clone();
                norights.rights = 0;
                let base_norights = build_board(&norights, None).current_position_hash();
                for (what, v) in variants.iter() {
                    let h = build_board(v, None).current_position_hash();
                    evals += 1;
                    if h == base_norights {
                        violate!(
                            i,
                            format!("C05/single-component-change-keeps-key/{}", what),
                            format!("{} and {} have the same key {:016x}", norights.to_fen(), v.to_fen(), h)
                        );
                    }
                }
                if out.violation.is_some() {
                    break;
                }
                // rights: every other subset of the held rights
                for sub in 0..16u8 {
                    if sub & !cur.rights != 0 || sub == cur.rights {
                        continue;
                    }
                    let mut v = cur.clone();
                    v.rights = sub;
                    let h = build_board(&v, None).current_position_hash();
                    evals += 1;
                    if h == base {
                        violate!(
                            i,
                            "C05/single-component-change-keeps-key/castling-rights".to_string(),
                            format!("{} and {} have the same key {:016x}", cur.to_fen(), v.to_fen(), h)
                        );
                    }
                }
                if out.violation.is_some() {
                    break;
                }
                // en passant: none vs some, and a different file
                let mut ep_variants: Vec<Pos> = Vec::new();
                if cur.ep.is_some() {
                    let mut v = cur.clone();
                    v.ep = None;
                    ep_variants.push(v);
                }
                for f in 0..8u8 {
                    let rank = if cur.stm == Side::White { 5 } else { 2 };
                    let e = rank * 8 + f;
                    if cur.ep == Some(e) || cur.sq[e as usize].is_some() {
                        continue;
                    }
                    let mut v = cur.clone();
                    v.ep = Some(e);
                    ep_variants.push(v);
                }
                for v in ep_variants {
                    let h = build_board(&v, None).current_position_hash();
                    evals += 1;
                    if h == base {
                        violate!(
                            i,
                            "C05/single-component-change-keeps-key/en-passant-target".to_string(),
                            format!("{} and {} have the same key {:016x}", cur.to_fen(), v.to_fen(), h)
                        );
                    }
                }
            }
            Op::Bracket(which) => {
                stats.bump("op-bracket");
                stats.bump(&format!("bracket/{}", which));
                let before = snapshot(&board);
                let name = match which {
                    0 => {
                        set_phase("bracket-generate");
                        let l = gen.generate_moves(&mut board, color(cur.stm));
                        digest.eat(l.len() as u64);
                        "generate_moves"
                    }
                    1 => {
                        set_phase("bracket-annotate");
                        let l = gen.generate_moves_and_lazily_update_chess_move_effects(&mut board, color(cur.stm));
                        digest.eat(l.len() as u64);
                        "annotated-generation"
                    }
                    2 => {
                        set_phase("bracket-game-ending");
                        let e = game_ending(&mut board, &mut gen, color(cur.stm));
                        digest.eat(ending_code(&e) as u64);
                        "game_ending"
                    }
                    3 | 4 => {
                        set_phase("bracket-perft");
                        let d = if *which == 3 { 1 } else { 2 };
                        let n = gen.count_positions(d, &mut board, color(cur.stm));
                        digest.eat(n as u64);
                        "count_positions"
                    }
                    5 | 6 => {
                        set_phase("bracket-search");
                        let d = if *which == 5 { 1 } else { 2 };
                        if cur.piece_count() > 20 && d == 2 {
                            stats.bump("bracket-search-d2-on-crowded-board");
                        }
                        let mut ctx = SearchContext::new(d);
                        let r = alpha_beta_search(&mut ctx, &mut board, &mut gen);
                        digest.eat(r.is_ok() as u64);
                        "alpha_beta_search"
                    }
                    _ => {
                        set_phase("bracket-notation");
                        let l = enumerate_candidate_moves_with_algebraic_notation(&mut board, color(cur.stm), &mut gen);
                        digest.eat(l.len() as u64);
                        "enumerate-notation"
                    }
                };
                let after = snapshot(&board);
                evals += 1;
                if prop == "C04" {
                    if let Some(field) = snapshot_diff(&before, &after) {
                        violate!(
                            i,
                            format!("C04/call-leaves-board-changed/{}/{}", name, field),
                            format!("{} changed {} of the caller's board in {}", name, field, cur.to_fen())
                        );
                    }
                }
            }
            _ => {
                stats.bump("op-ignored");
            }
        }
        if monitor {
            if let Some(v) = take_monitor_violation() {
                let mut parts = v.splitn(2, '|');
                let what = parts.next().unwrap_or("").to_string();
                let fen = parts.next().unwrap_or("").to_string();
                out.violation = Some(Violation {
                    class: format!("C12/{}/transient-state-inside-{}", what, crate::phase()),
                    detail: format!("state {} seen inside the engine during op {:?} from {}", fen, op, cur.to_fen()),
                    at_op: i,
                });
                break;
            }
        }
    }
    if monitor {
        remove_monitor();
        let (s, a, u, f) = monitor_counts();
        stats.add("monitor/states-checked", s);
        stats.add("monitor/applies", a);
        stats.add("monitor/undos", u);
        stats.add("monitor/failed-ops", f);
        OBS_STATES.store(0, std::sync::atomic::Ordering::Relaxed);
        OBS_APPLIED.store(0, std::sync::atomic::Ordering::Relaxed);
        OBS_UNDONE.store(0, std::sync::atomic::Ordering::Relaxed);
        OBS_FAILED_OPS.store(0, std::sync::atomic::Ordering::Relaxed);
    }
    if gen.cache_entry_count() >= plan.lru && plan.lru > 0 && plan.lru <= 64 {
        stats.bump("fault/lru-eviction-reached");
    }
    stats.add("plies-max", 0);
    stats.add("steps", plan.ops.len() as u64);
    let _ = (WK, WQ, BK, BQ, max_plies_seen);
    out.stats = stats;
    out.digest = digest.0;
    out.oracle_evals = evals;
    out
}
