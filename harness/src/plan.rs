//! Plans (what a run does), outcomes (what it observed), statistics, and the
//! generic delta-debugging shrinker. A run is a pure function of its plan and
//! the code under test; a plan is a pure function of (VERIF_SEED, run index).

use std::collections::BTreeMap;

use serde::{Deserialize, Serialize};

#[derive(Serialize, Deserialize, Clone, Debug, PartialEq)]
pub enum Op {
    /// make the k-th legal move (model order, k mod n); caller toggles the turn like the game loops
    Make(u32),
    /// undo the most recent made move (no-op at the start position)
    Undo,
    /// long-lived generator vs brand-new generator: legal moves, both colours
    QueryMoves,
    /// long-lived generator vs brand-new generator: attacked squares, both colours
    QueryAttacks,
    /// check / checkmate / stalemate verdicts vs the model
    QueryVerdict,
    /// annotated move generation through the long-lived generator vs the model
    Annotate,
    /// rebuild the current position from scratch (randomised construction order) and compare keys
    Rebuild(u64),
    /// single-component changes must change the key
    Distinct(u64),
    /// call an engine routine that mutates the caller's board internally; snapshot must be unchanged.
    /// 0 generate_moves, 1 annotated generation, 2 game_ending, 3 count_positions(d=1), 4 count_positions(d=2),
    /// 5 search depth 1, 6 search depth 2, 7 enumerate notation
    Bracket(u8),
    /// search at the given depth (C07/C08 scenarios)
    Search(u8),
    /// count positions at the given depth (C10 scenarios); second field: 0 fresh generator, 1 long-lived
    Perft(u8, u8),
    /// text typed at the game (C14)
    Typed(String),
    /// coordinate pair typed at the game (C14)
    Coord(u8, u8),
    /// ask the engine for its move with the run-time random choice forced to this index (C15)
    EngineMove(u32),
    /// the UCI peer replies with the k-th legal move as text through the bridge parser (C19)
    PeerMove(u32),
}

#[derive(Serialize, Deserialize, Clone, Debug, PartialEq)]
pub struct Plan {
    pub property: String,
    pub scenario: String,
    pub seed: u64,
    pub index: u64,
    pub start_fen: String,
    /// LRU capacity knob (0 = shipped capacity)
    pub lru: usize,
    /// register every position as it arises / unregister on undo (C17)
    pub register: bool,
    /// free-form integer knobs (search depth, worker count, scheduler, ...)
    pub knobs: BTreeMap<String, i64>,
    pub ops: Vec<Op>,
    /// controlled-scheduler runs: the serialized shuttle schedule to replay (empty = search)
    #[serde(default)]
    pub schedule: String,
}

impl Plan {
    pub fn knob(&self, name: &str, default: i64) -> i64 {
        *self.knobs.get(name).unwrap_or(&default)
    }

    /// FNV hash of everything that defines the run.
    pub fn signature(&self) -> u64 {
        let text = serde_json::to_string(&(&self.scenario, &self.start_fen, self.lru, self.register, &self.knobs, &self.ops))
            .unwrap();
        let mut h: u64 = 0xcbf29ce484222325;
        for b in text.bytes() {
            h ^= b as u64;
            h = h.wrapping_mul(0x100000001b3);
        }
        h
    }
}

#[derive(Serialize, Deserialize, Clone, Debug, Default)]
pub struct Violation {
    /// which oracle clause failed plus the discriminating facts, e.g. "C16/halfmove-clock/after-quiet-pawn-move"
    pub class: String,
    /// human-readable observation (expected vs got)
    pub detail: String,
    /// index of the operation at which it was observed
    pub at_op: usize,
}

#[derive(Clone, Debug, Default)]
pub struct Stats {
    pub counters: BTreeMap<String, u64>,
}

impl Stats {
    pub fn bump(&mut self, key: &str) {
        *self.counters.entry(key.to_string()).or_insert(0) += 1;
    }
    pub fn add(&mut self, key: &str, n: u64) {
        *self.counters.entry(key.to_string()).or_insert(0) += n;
    }
    pub fn merge(&mut self, other: &Stats) {
        for (k, v) in other.counters.iter() {
            *self.counters.entry(k.clone()).or_insert(0) += v;
        }
    }
}

#[derive(Clone, Debug, Default)]
pub struct Outcome {
    pub violation: Option<Violation>,
    /// the run was abandoned because engine and model disagreed on something this property does not judge
    pub desync: Option<String>,
    pub stats: Stats,
    pub digest: u64,
    /// oracle evaluations performed
    pub oracle_evals: u64,
    /// sampled model-state fingerprints (fingerprint % 64 == 0)
    pub state_sample: Vec<u64>,
    /// controlled-scheduler runs: the failing schedule (to be stored in the replay file)
    pub schedule: Option<String>,
    /// controlled-scheduler runs: signatures of the interleavings explored
    pub interleavings: Vec<u64>,
}

/// Delta debugging over the op list: drop chunks, drop single ops, lower
/// integer arguments; a candidate is kept only if it fails with the same class.
pub fn shrink<F>(plan: &Plan, class: &str, budget_execs: usize, mut exec: F) -> (Plan, usize)
where
    F: FnMut(&Plan) -> Option<String>,
{
    let mut best = plan.clone();
    let mut execs = 0usize;
    let mut try_plan = |cand: &Plan, execs: &mut usize| -> bool {
        if *execs >= budget_execs {
            return false;
        }
        *execs += 1;
        exec(cand).as_deref() == Some(class)
    };
    // 1. chunks, halving
    let mut chunk = (best.ops.len() / 2).max(1);
    while chunk >= 1 && execs < budget_execs {
        let mut i = 0;
        let mut progressed = false;
        while i < best.ops.len() && execs < budget_execs {
            let mut cand = best.clone();
            let end = (i + chunk).min(cand.ops.len());
            cand.ops.drain(i..end);
            if try_plan(&cand, &mut execs) {
                best = cand;
                progressed = true;
            } else {
                i += chunk;
            }
        }
        if chunk == 1 && !progressed {
            break;
        }
        if chunk > 1 {
            chunk /= 2;
        }
    }
    // 2. simplify arguments
    let mut i = 0;
    while i < best.ops.len() && execs < budget_execs {
        let replacement: Vec<Op> = match &best.ops[i] {
            Op::Make(k) if *k > 0 => vec![Op::Make(0), Op::Make(k / 2)],
            Op::Search(d) if *d > 1 => vec![Op::Search(d - 1)],
            Op::Perft(d, g) if *d > 0 => vec![Op::Perft(d - 1, *g)],
            Op::EngineMove(k) if *k > 0 => vec![Op::EngineMove(0)],
            Op::PeerMove(k) if *k > 0 => vec![Op::PeerMove(0)],
            _ => vec![],
        };
        for r in replacement {
            if r == best.ops[i] {
                continue;
            }
            let mut cand = best.clone();
            cand.ops[i] = r;
            if try_plan(&cand, &mut execs) {
                best = cand;
                break;
            }
        }
        i += 1;
    }
    // 2b. smaller soak budgets
    while let Some(n) = best.knobs.get("nodes").copied() {
        if n <= 1000 || execs >= budget_execs {
            break;
        }
        let mut cand = best.clone();
        cand.knobs.insert("nodes".to_string(), n / 2);
        if try_plan(&cand, &mut execs) {
            best = cand;
        } else {
            break;
        }
    }
    // 2c. the global one-thread pool instead of a sized one
    if best.knob("pool", 1) > 1 && execs < budget_execs {
        let mut cand = best.clone();
        cand.knobs.insert("pool".to_string(), 1);
        if try_plan(&cand, &mut execs) {
            best = cand;
        }
    }
    // 3. simpler knobs
    if best.lru != 0 && execs < budget_execs {
        for cap in [4096usize] {
            if cap == best.lru {
                continue;
            }
            let mut cand = best.clone();
            cand.lru = cap;
            if try_plan(&cand, &mut execs) {
                best = cand;
                break;
            }
        }
    }
    (best, execs)
}
