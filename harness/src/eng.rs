//! Adapters between the reference model and the engine's public API, the full
//! observable snapshot (C04) and the representation-invariant monitor (C12).

use std::sync::atomic::{AtomicU64, Ordering};
use std::sync::Mutex;

use chess::board::color::Color;
use chess::board::piece::Piece;
use chess::board::Board;
use chess::chess_move::capture::Capture;
use chess::chess_move::castle::CastleChessMove;
use chess::chess_move::chess_move::ChessMove;
use chess::chess_move::chess_move_effect::ChessMoveEffect;
use chess::chess_move::en_passant::EnPassantChessMove;
use chess::chess_move::pawn_promotion::PawnPromotionChessMove;
use chess::chess_move::standard::StandardChessMove;
use common::bitboard::bitboard::Bitboard;

use crate::model::{file_of, mk_sq, rank_of, Mv, Pos, Side, Sq, ALL_P, BK, BQ, P, WK, WQ};
use crate::prng::Rng;

pub fn bb(s: Sq) -> Bitboard {
    Bitboard(1u64 << s)
}

pub fn sq_of(b: Bitboard) -> Sq {
    b.0.trailing_zeros() as Sq
}

pub fn piece(p: P) -> Piece {
    match p {
        P::Pawn => Piece::Pawn,
        P::Knight => Piece::Knight,
        P::Bishop => Piece::Bishop,
        P::Rook => Piece::Rook,
        P::Queen => Piece::Queen,
        P::King => Piece::King,
    }
}

pub fn unpiece(p: Piece) -> P {
    match p {
        Piece::Pawn => P::Pawn,
        Piece::Knight => P::Knight,
        Piece::Bishop => P::Bishop,
        Piece::Rook => P::Rook,
        Piece::Queen => P::Queen,
        Piece::King => P::King,
    }
}

pub fn color(s: Side) -> Color {
    match s {
        Side::White => Color::White,
        Side::Black => Color::Black,
    }
}

pub fn uncolor(c: Color) -> Side {
    match c {
        Color::White => Side::White,
        Color::Black => Side::Black,
    }
}

/// Builds the engine board for a model position from scratch through the
/// public editing API. With an rng the construction order is randomised (put
/// order, rights lost in one or several steps, put/remove detours, ep pushed
/// before or after the pieces).
pub fn build_board(pos: &Pos, mut rng: Option<&mut Rng>) -> Board {
    let mut board = Board::new();
    let mut squares: Vec<Sq> = (0..64u8).filter(|&s| pos.sq[s as usize].is_some()).collect();
    let mut ep_first = false;
    if let Some(r) = rng.as_deref_mut() {
        r.shuffle(&mut squares);
        ep_first = r.chance(1, 2);
    }
    let push_ep = |board: &mut Board| {
        if let Some(e) = pos.ep {
            board.push_en_passant_target(bb(e));
        }
    };
    if ep_first {
        push_ep(&mut board);
    }
    for s in squares {
        let (p, side) = pos.sq[s as usize].unwrap();
        if let Some(r) = rng.as_deref_mut() {
            if r.chance(1, 10) && board.is_occupied(bb(s ^ 1)) {
                // a refused put (square already occupied) must leave no trace
                let other = *r.pick(&ALL_P);
                let _ = board.put(bb(s ^ 1), piece(other), color(side));
            }
            if r.chance(1, 8) {
                // detour: put something else first, remove it again
                let other = *r.pick(&ALL_P);
                board.put(bb(s), piece(other), color(side.other())).unwrap();
                board.remove(bb(s)).unwrap();
            }
        }
        board.put(bb(s), piece(p), color(side)).unwrap();
    }
    let lost = 0b1111 & !pos.rights;
    let split_rights = match rng.as_deref_mut() {
        Some(r) => r.chance(1, 2),
        None => false,
    };
    match rng.as_deref_mut() {
        Some(r) if split_rights => {
            let mut bits: Vec<u8> = [WK, WQ, BK, BQ].iter().copied().filter(|b| lost & b != 0).collect();
            r.shuffle(&mut bits);
            for b in bits {
                board.lose_castle_rights(b);
            }
        }
        _ => {
            board.lose_castle_rights(lost);
        }
    }
    if !ep_first {
        push_ep(&mut board);
    }
    board.set_turn(color(pos.stm));
    board
}

pub fn to_engine_move(m: &Mv, mover: Side) -> ChessMove {
    let cap = m.capture.map(|p| Capture(piece(p)));
    if let Some(kingside) = m.castle {
        return ChessMove::Castle(if kingside {
            CastleChessMove::castle_kingside(color(mover))
        } else {
            CastleChessMove::castle_queenside(color(mover))
        });
    }
    if m.ep {
        return ChessMove::EnPassant(EnPassantChessMove::new(bb(m.from), bb(m.to)));
    }
    if let Some(p) = m.promo {
        return ChessMove::PawnPromotion(PawnPromotionChessMove::new(bb(m.from), bb(m.to), cap, piece(p)));
    }
    ChessMove::Standard(StandardChessMove::new(bb(m.from), bb(m.to), cap))
}

/// (kind, from, to, promotion, capture): kind 0 standard, 1 promotion, 2 en passant, 3 castle.
pub type MoveKey = (u8, Sq, Sq, u8, u8);

pub fn key_of_engine(m: &ChessMove) -> MoveKey {
    let (kind, promo) = match m {
        ChessMove::Standard(_) => (0, 0),
        ChessMove::PawnPromotion(p) => (1, 1 + unpiece(p.promote_to_piece()) as u8),
        ChessMove::EnPassant(_) => (2, 0),
        ChessMove::Castle(_) => (3, 0),
    };
    let cap = m.captures().map_or(0, |c| 1 + unpiece(c.0) as u8);
    (kind, sq_of(m.from_square()), sq_of(m.to_square()), promo, cap)
}

pub fn key_of_model(m: &Mv) -> MoveKey {
    let kind = if m.castle.is_some() {
        3
    } else if m.ep {
        2
    } else if m.promo.is_some() {
        1
    } else {
        0
    };
    (
        kind,
        m.from,
        m.to,
        m.promo.map_or(0, |p| 1 + p as u8),
        m.capture.map_or(0, |p| 1 + p as u8),
    )
}

pub fn effect_code(e: ChessMoveEffect) -> u8 {
    match e {
        ChessMoveEffect::None => 0,
        ChessMoveEffect::Check => 1,
        ChessMoveEffect::Checkmate => 2,
        ChessMoveEffect::NotYetCalculated => 3,
    }
}

/// Placement + rights + ep of the engine board read back into a model position
/// (side to move from the board's turn; clocks from the board).
pub fn read_board(board: &Board) -> Pos {
    let mut pos = Pos::empty();
    for s in 0..64u8 {
        pos.sq[s as usize] = board.get(bb(s)).map(|(p, c)| (unpiece(p), uncolor(c)));
    }
    pos.stm = uncolor(board.turn());
    pos.rights = board.peek_castle_rights();
    let ep = board.peek_en_passant_target();
    pos.ep = if ep.is_empty() { None } else { Some(sq_of(ep)) };
    pos.half = board.halfmove_clock() as u32;
    pos
}

/// Does the engine board show exactly the model position (placement, rights, ep)?
pub fn same_position(board: &Board, pos: &Pos) -> bool {
    let got = read_board(board);
    got.sq == pos.sq && got.rights == pos.rights && got.ep == pos.ep
}

// ---------------------------------------------------------------- snapshot (C04)

#[derive(Clone, PartialEq, Eq, Debug)]
pub struct Snapshot {
    pub squares: [u8; 64],
    pub locate: [u64; 12],
    pub occ: [u64; 3],
    pub turn: u8,
    pub rights: u8,
    pub ep: u64,
    pub half: u32,
    pub full: u32,
    pub hash: u64,
    pub max_seen: u32,
    pub depths: [usize; 4],
    pub rep: (u64, usize),
}

pub fn snapshot(board: &Board) -> Snapshot {
    let mut squares = [0u8; 64];
    for s in 0..64u8 {
        squares[s as usize] = match board.get(bb(s)) {
            None => 0,
            Some((p, c)) => 1 + unpiece(p) as u8 + 6 * (uncolor(c) as u8),
        };
    }
    let mut locate = [0u64; 12];
    for (ci, c) in [Color::Black, Color::White].iter().enumerate() {
        for p in ALL_P {
            locate[ci * 6 + p as usize] = board.pieces(*c).locate(piece(p)).0;
        }
    }
    Snapshot {
        squares,
        locate,
        occ: [
            board.pieces(Color::Black).occupied().0,
            board.pieces(Color::White).occupied().0,
            board.occupied().0,
        ],
        turn: uncolor(board.turn()) as u8,
        rights: board.peek_castle_rights(),
        ep: board.peek_en_passant_target().0,
        half: board.halfmove_clock() as u32,
        full: board.fullmove_clock() as u32,
        hash: board.current_position_hash(),
        max_seen: board.max_seen_position_count() as u32,
        depths: board.verif_stack_depths(),
        rep: board.verif_repetition_fingerprint(),
    }
}

/// Name of the first observable that differs, if any.
pub fn snapshot_diff(a: &Snapshot, b: &Snapshot) -> Option<&'static str> {
    if a.squares != b.squares {
        return Some("placement");
    }
    if a.locate != b.locate {
        return Some("piece-bitboards");
    }
    if a.occ != b.occ {
        return Some("occupancy");
    }
    if a.turn != b.turn {
        return Some("turn");
    }
    if a.rights != b.rights {
        return Some("castling-rights");
    }
    if a.ep != b.ep {
        return Some("en-passant-target");
    }
    if a.half != b.half {
        return Some("halfmove-clock");
    }
    if a.full != b.full {
        return Some("fullmove-counter");
    }
    if a.hash != b.hash {
        return Some("position-key");
    }
    if a.max_seen != b.max_seen {
        return Some("max-seen-position-count");
    }
    if a.depths != b.depths {
        return Some("stack-depths");
    }
    if a.rep != b.rep {
        return Some("repetition-map");
    }
    None
}

// ------------------------------------------------- invariant monitor (C12, via H5)

/// First representation invariant the board violates, if any.
pub fn invariant_violation(board: &Board) -> Option<&'static str> {
    let mut seen = 0u64;
    let mut per_color = [0u64; 2];
    for (ci, c) in [Color::Black, Color::White].iter().enumerate() {
        let set = board.pieces(*c);
        for p in ALL_P {
            let l = set.locate(piece(p)).0;
            if l & seen != 0 {
                return Some("two-pieces-on-one-square");
            }
            seen |= l;
            per_color[ci] |= l;
        }
        if set.occupied().0 != per_color[ci] {
            return Some("colour-occupancy-disagrees-with-piece-bitboards");
        }
        if set.locate(Piece::King).0.count_ones() != 1 {
            return Some("not-exactly-one-king");
        }
        if set.locate(Piece::Pawn).0 & 0xFF00_0000_0000_00FF != 0 {
            return Some("pawn-on-first-or-eighth-rank");
        }
    }
    if board.occupied().0 != seen {
        return Some("board-occupancy-disagrees-with-piece-bitboards");
    }
    for s in 0..64u8 {
        let here = bb(s);
        let expect = [Color::Black, Color::White].iter().find_map(|c| {
            ALL_P
                .iter()
                .find(|p| board.pieces(*c).locate(piece(**p)).0 & here.0 != 0)
                .map(|p| (piece(*p), *c))
        });
        if board.get(here) != expect {
            return Some("get-disagrees-with-piece-bitboards");
        }
        if board.is_occupied(here) != expect.is_some() {
            return Some("is-occupied-disagrees-with-piece-bitboards");
        }
    }
    let rights = board.peek_castle_rights();
    if rights & !0b1111 != 0 {
        return Some("castling-rights-out-of-range");
    }
    let has = |s: Sq, p: Piece, c: Color| board.get(bb(s)) == Some((p, c));
    if rights & WK != 0 && !(has(4, Piece::King, Color::White) && has(7, Piece::Rook, Color::White)) {
        return Some("castling-right-without-king-and-rook-at-home");
    }
    if rights & WQ != 0 && !(has(4, Piece::King, Color::White) && has(0, Piece::Rook, Color::White)) {
        return Some("castling-right-without-king-and-rook-at-home");
    }
    if rights & BK != 0 && !(has(60, Piece::King, Color::Black) && has(63, Piece::Rook, Color::Black)) {
        return Some("castling-right-without-king-and-rook-at-home");
    }
    if rights & BQ != 0 && !(has(60, Piece::King, Color::Black) && has(56, Piece::Rook, Color::Black)) {
        return Some("castling-right-without-king-and-rook-at-home");
    }
    let ep = board.peek_en_passant_target();
    if !ep.is_empty() {
        if ep.0.count_ones() != 1 {
            return Some("en-passant-target-not-a-square");
        }
        let e = sq_of(ep);
        let (pawn_rank, behind_rank, c) = match rank_of(e) {
            2 => (3, 1, Color::White),
            5 => (4, 6, Color::Black),
            _ => return Some("en-passant-target-off-third-or-sixth-rank"),
        };
        let f = file_of(e);
        if board.get(ep).is_some() {
            return Some("en-passant-target-occupied");
        }
        if board.get(bb(mk_sq(f, pawn_rank).unwrap())) != Some((Piece::Pawn, c)) {
            return Some("en-passant-target-without-pawn-in-front");
        }
        if board.get(bb(mk_sq(f, behind_rank).unwrap())).is_some() {
            return Some("en-passant-target-with-occupied-square-behind");
        }
    }
    None
}

pub static OBS_STATES: AtomicU64 = AtomicU64::new(0);
pub static OBS_APPLIED: AtomicU64 = AtomicU64::new(0);
pub static OBS_UNDONE: AtomicU64 = AtomicU64::new(0);
pub static OBS_FAILED_OPS: AtomicU64 = AtomicU64::new(0);
static OBS_FIRST: Mutex<Option<String>> = Mutex::new(None);

fn observer(board: &Board, event: u8, ok: bool) {
    OBS_STATES.fetch_add(1, Ordering::Relaxed);
    if event == chess::verif_hooks::BOARD_EVENT_APPLIED {
        OBS_APPLIED.fetch_add(1, Ordering::Relaxed);
    } else {
        OBS_UNDONE.fetch_add(1, Ordering::Relaxed);
    }
    if !ok {
        // a failed apply/undo leaves the board half-edited by design; no invariant is claimed there
        OBS_FAILED_OPS.fetch_add(1, Ordering::Relaxed);
        return;
    }
    if let Some(what) = invariant_violation(board) {
        let mut first = OBS_FIRST.lock().unwrap();
        if first.is_none() {
            let when = if event == chess::verif_hooks::BOARD_EVENT_APPLIED { "after-apply" } else { "after-undo" };
            *first = Some(format!("{}/{}|{}", what, when, read_board(board).to_fen()));
        }
    }
}

/// Installs the invariant monitor on every ChessMove::apply/undo the engine performs.
pub fn install_monitor() {
    chess::verif_hooks::set_board_observer(Some(observer));
}

pub fn remove_monitor() {
    chess::verif_hooks::set_board_observer(None);
}

/// Takes (and clears) the first invariant violation seen by the monitor.
pub fn take_monitor_violation() -> Option<String> {
    OBS_FIRST.lock().unwrap().take()
}

pub fn monitor_counts() -> (u64, u64, u64, u64) {
    (
        OBS_STATES.load(Ordering::Relaxed),
        OBS_APPLIED.load(Ordering::Relaxed),
        OBS_UNDONE.load(Ordering::Relaxed),
        OBS_FAILED_OPS.load(Ordering::Relaxed),
    )
}
