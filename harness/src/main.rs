//! sim — the deterministic simulator's worker process.
//!
//!   sim selftest
//!   sim run --prop C04 --tier quick --seed 1 --from 0 --to 500 [--deadline-ms 60000]
//!   sim replay --file replays/C04-....json
//!   sim shrink --file violation.json --out replay.json [--budget 400]
//!   sim plan --prop C04 --seed 1 --index 7 [--tier quick]
//!
//! One process executes runs sequentially; the driver (bin/check) fans run-index
//! ranges out over processes. Exit codes: 0 ok, 1 violation reproduced (replay),
//! 2 harness error.

mod eng;
mod gen;
mod model;
mod plan;
mod prng;
#[cfg(not(chess_verif_shuttle))]
mod hist;
#[cfg(not(chess_verif_shuttle))]
mod search;
#[cfg(not(chess_verif_shuttle))]
mod gamesc;
#[cfg(not(chess_verif_shuttle))]
mod cli;
#[cfg(not(chess_verif_shuttle))]
mod tables;
#[cfg(chess_verif_shuttle)]
mod sched;

use std::collections::BTreeMap;
use std::panic::{catch_unwind, AssertUnwindSafe};
use std::sync::Mutex;
use std::time::Instant;

use serde::{Deserialize, Serialize};

use plan::{Outcome, Plan, Stats, Violation};

#[derive(Clone, Copy, PartialEq, Eq, Debug)]
pub enum Tier {
    Quick,
    Thorough,
}

static PHASE: Mutex<&'static str> = Mutex::new("idle");
/// (plan of the run in progress as JSON, when it started, class expected by a replay)
static WATCH: Mutex<Option<(String, Instant, String, f64)>> = Mutex::new(None);

fn hang_limit() -> std::time::Duration {
    let s: u64 = std::env::var("VERIF_HANG_LIMIT_S").ok().and_then(|v| v.parse().ok()).unwrap_or(900);
    std::time::Duration::from_secs(s)
}

/// Progress mark: the liveness bound applies to one operation / one scheduled execution, not to a
/// whole run (a run may legitimately consist of dozens of deep searches).
pub fn watchdog_touch() {
    if let Some(w) = WATCH.lock().unwrap().as_mut() {
        w.1 = Instant::now();
        w.3 = cpu_seconds();
    }
}

/// CPU seconds (user + system) this process has used so far.
fn cpu_seconds() -> f64 {
    let stat = std::fs::read_to_string("/proc/self/stat").unwrap_or_default();
    // fields after the parenthesised command name; utime and stime are fields 14 and 15
    let rest = stat.rsplit(')').next().unwrap_or("");
    let f: Vec<&str> = rest.split_whitespace().collect();
    let ticks = |i: usize| f.get(i).and_then(|x| x.parse::<f64>().ok()).unwrap_or(0.0);
    (ticks(11) + ticks(12)) / 100.0
}

/// A run counts as hung when it has burnt more CPU than the limit (a spinning loop) or has
/// not returned for four times the limit in wall time (a blocked one); a merely starved
/// process reaches neither quickly.
fn run_is_stuck(start_wall: Instant, start_cpu: f64) -> bool {
    let limit = hang_limit();
    cpu_seconds() - start_cpu > limit.as_secs_f64() || start_wall.elapsed() > limit * 4 || (limit.as_secs() == 0)
}

/// Liveness watchdog (wall clock, only as a very generous bound): a run that does not
/// return is reported by the worker itself, with its plan, and the process ends.
fn start_watchdog(prop: String, replaying: bool) {
    std::thread::spawn(move || {
        // a blocked call (every thread waiting, e.g. a self-deadlock on a lock) burns no CPU at all:
        // less than one CPU second in a fifth of the limit of wall time inside one in-process search
        // or count is reported without waiting for the wall-time backstop
        let mut window: (Instant, f64) = (Instant::now(), cpu_seconds());
        loop {
        std::thread::sleep(std::time::Duration::from_millis(500));
        let stuck = {
            let w = WATCH.lock().unwrap();
            let now_cpu = cpu_seconds();
            let blocked = match &*w {
                Some((_, start, _, _)) if matches!(phase(), "search" | "perft") => {
                    if now_cpu - window.1 > 1.0 || *start > window.0 {
                        window = (Instant::now().max(*start), now_cpu);
                    }
                    window.0.elapsed() > hang_limit() / 5 && hang_limit().as_secs() > 0
                }
                _ => {
                    window = (Instant::now(), now_cpu);
                    false
                }
            };
            match &*w {
                Some((plan, start, expect, cpu0)) if blocked || run_is_stuck(*start, *cpu0) => Some((plan.clone(), expect.clone())),
                _ => None,
            }
        };
        if let Some((plan_json, expect)) = stuck {
            let ph = phase();
            let class = format!("{}/hang/no-answer-within-the-liveness-bound/{}", prop, ph);
            let counts = matches!(prop.as_str(), "C07" | "C09" | "C10") && matches!(ph, "search" | "perft");
            if replaying {
                if expect == class {
                    println!("REPRODUCED class={} (no answer within {:?})", class, hang_limit());
                    std::process::exit(1);
                }
                println!("HANG during replay in phase {} (expected class {})", ph, expect);
                std::process::exit(3);
            }
            if !counts {
                eprintln!("worker stuck for more than {:?} in phase {} of a {} run", hang_limit(), ph, prop);
                std::process::exit(2);
            }
            let plan: Plan = serde_json::from_str(&plan_json).expect("plan json");
            let sum = Summary {
                property: prop.clone(),
                runs: 1,
                violating_runs: 1,
                violations: vec![ReplayFile {
                    property: prop.clone(),
                    class,
                    detail: format!("the call did not return within {:?} (phase {})", hang_limit(), ph),
                    original_ops: plan.ops.len(),
                    shrink_execs: 0,
                    plan,
                    prefix: None,
                }],
                ..Default::default()
            };
            println!("{}", serde_json::to_string(&sum).unwrap());
            std::process::exit(0);
        }
        }
    });
}
static LAST_PANIC: Mutex<Option<String>> = Mutex::new(None);

pub fn set_phase(p: &'static str) {
    *PHASE.lock().unwrap() = p;
    watchdog_touch();
}

pub fn phase() -> &'static str {
    *PHASE.lock().unwrap()
}

fn install_panic_hook() {
    std::panic::set_hook(Box::new(|info| {
        let msg = if let Some(s) = info.payload().downcast_ref::<&str>() {
            s.to_string()
        } else if let Some(s) = info.payload().downcast_ref::<String>() {
            s.clone()
        } else {
            "panic".to_string()
        };
        let loc = info.location().map(|l| format!("{}:{}", l.file(), l.line())).unwrap_or_default();
        let mut slot = LAST_PANIC.lock().unwrap();
        if slot.is_none() {
            *slot = Some(format!("{} @ {}", msg, loc));
        }
    }));
}

pub fn take_last_panic() -> Option<String> {
    LAST_PANIC.lock().unwrap().take()
}

pub fn normalise_panic_pub(msg: &str) -> String {
    normalise_panic(msg)
}

/// Strips volatile details (numbers, paths) so that a panic class is stable under shrinking.
fn normalise_panic(msg: &str) -> String {
    let head: String = msg.split('@').next().unwrap_or("").chars().take(80).collect();
    let mut out = String::new();
    let mut last_dash = false;
    for c in head.chars() {
        if c.is_ascii_alphabetic() {
            out.push(c.to_ascii_lowercase());
            last_dash = false;
        } else if !last_dash {
            out.push('-');
            last_dash = true;
        }
    }
    out.trim_matches('-').to_string()
}

/// Phases in which a panic is a violation of the given property.
fn panic_counts_for(prop: &str, phase: &str) -> bool {
    match prop {
        "C02" => phase == "query",
        // a panic inside the bracketed search itself is C07's subject, not C04's
        "C04" => matches!(phase, "make" | "undo") || (phase.starts_with("bracket") && phase != "bracket-search"),
        "C05" => matches!(phase, "make" | "undo" | "rebuild"),
        "C06" => matches!(phase, "verdict" | "annotate"),
        "C07" => matches!(phase, "search"),
        "C09" => matches!(phase, "search"),
        "C10" => matches!(phase, "perft"),
        "C14" => matches!(phase, "typed"),
        "C15" => matches!(phase, "engine-move" | "book"),
        "C16" => matches!(phase, "make" | "undo"),
        "C17" => matches!(phase, "register" | "game-loop"),
        "C19" => matches!(phase, "uci" | "peer"),
        _ => false,
    }
}

pub fn gen_plan(prop: &str, seed: u64, index: u64, tier: Tier) -> Plan {
    match prop {
        #[cfg(not(chess_verif_shuttle))]
        "C17" if index % 4 == 3 => gamesc::gen_plan(prop, seed, index, tier),
        #[cfg(not(chess_verif_shuttle))]
        "C16" if index % 8 == 5 => gamesc::gen_plan(prop, seed, index, tier),
        #[cfg(not(chess_verif_shuttle))]
        "C02" | "C04" | "C05" | "C06" | "C12" | "C16" | "C17" => hist::gen_plan(prop, seed, index, tier),
        #[cfg(not(chess_verif_shuttle))]
        "C07" | "C08" | "C10" => search::gen_plan(prop, seed, index, tier),
        #[cfg(not(chess_verif_shuttle))]
        "C14" | "C15" | "C19" => gamesc::gen_plan(prop, seed, index, tier),
        #[cfg(not(chess_verif_shuttle))]
        "C14CLI" | "C10CLI" => cli::gen_plan(prop, seed, index, tier),
        #[cfg(not(chess_verif_shuttle))]
        "C19CLI" => cli::gen_plan_stockfish(seed, index, tier),
        #[cfg(not(chess_verif_shuttle))]
        "C11" => tables::gen_plan(prop, seed, index, tier),
        #[cfg(chess_verif_shuttle)]
        "C09" | "C07" | "C10" | "C12" => sched::gen_plan(prop, seed, index, tier),
        other => {
            eprintln!("no scenario for property {} in this build", other);
            std::process::exit(2);
        }
    }
}

fn exec_raw(plan: &Plan) -> Outcome {
    match plan.property.as_str() {
        #[cfg(not(chess_verif_shuttle))]
        _ if plan.scenario == "cli-stockfish-bridge" => cli::exec_stockfish(plan),
        #[cfg(not(chess_verif_shuttle))]
        _ if plan.scenario.starts_with("cli-") => cli::exec(plan),
        #[cfg(not(chess_verif_shuttle))]
        "C02" | "C04" | "C05" | "C06" | "C12" | "C16" | "C17" if !plan.scenario.starts_with("game-loop") => hist::exec(plan),
        #[cfg(not(chess_verif_shuttle))]
        "C07" | "C08" | "C10" => search::exec(plan),
        #[cfg(not(chess_verif_shuttle))]
        "C14" | "C15" | "C19" | "C17" | "C16" => gamesc::exec(plan),
        #[cfg(not(chess_verif_shuttle))]
        "C11" => tables::exec(plan),
        #[cfg(chess_verif_shuttle)]
        "C09" | "C07" | "C10" | "C12" => sched::exec(plan),
        other => {
            eprintln!("no executor for property {} / scenario {} in this build", other, plan.scenario);
            std::process::exit(2);
        }
    }
}

/// Executes a plan; a panic inside the engine becomes a violation (if the phase
/// it happened in belongs to the property) or a desync (otherwise).
pub fn exec(plan: &Plan) -> Outcome {
    *LAST_PANIC.lock().unwrap() = None;
    set_phase("idle");
    let result = catch_unwind(AssertUnwindSafe(|| exec_raw(plan)));
    match result {
        Ok(o) => o,
        Err(_) => {
            let msg = LAST_PANIC.lock().unwrap().take().unwrap_or_else(|| "panic".into());
            let ph = phase();
            let mut o = Outcome::default();
            o.stats.bump("panics-caught");
            #[cfg(not(chess_verif_shuttle))]
            eng::remove_monitor();
            if panic_counts_for(&plan.property, ph) {
                o.violation = Some(Violation {
                    class: format!("{}/panic/{}/{}", plan.property, ph, normalise_panic(&msg)),
                    detail: format!("panicked during {}: {}", ph, msg),
                    at_op: 0,
                });
            } else {
                o.desync = Some(format!("panic during {}: {}", ph, msg));
            }
            o
        }
    }
}

#[derive(Serialize, Deserialize, Clone, Debug)]
pub struct ReplayFile {
    pub property: String,
    pub class: String,
    pub detail: String,
    pub plan: Plan,
    #[serde(default)]
    pub original_ops: usize,
    #[serde(default)]
    pub shrink_execs: usize,
    /// set when the failure depends on state the engine keeps across runs inside one process:
    /// the replay then re-executes the worker's earlier runs first
    #[serde(default)]
    pub prefix: Option<Prefix>,
}

#[derive(Serialize, Deserialize, Clone, Debug)]
pub struct Prefix {
    pub prop_arg: String,
    pub tier: String,
    pub seed: u64,
    pub from: u64,
    pub stride: u64,
    pub upto: u64,
}

#[derive(Serialize, Default)]
struct Summary {
    property: String,
    tier: String,
    seed: u64,
    from: u64,
    to: u64,
    runs: u64,
    nontrivial_runs: u64,
    oracle_evals: u64,
    desyncs: u64,
    violating_runs: u64,
    desync_samples: Vec<String>,
    violations: Vec<ReplayFile>,
    counters: BTreeMap<String, u64>,
    digest_xor: u64,
    digest_sum: u64,
    signatures: Vec<u64>,
    interleavings: Vec<u64>,
    state_sample: Vec<u64>,
    samples: Vec<Plan>,
    wall_ms: u64,
    stopped_by_deadline: bool,
}

#[cfg(chess_verif_shuttle)]
fn extra_fens() -> Vec<&'static str> {
    sched::MATING_FENS.iter().chain(sched::BIG_SEARCH_FENS.iter()).copied().collect()
}

#[cfg(not(chess_verif_shuttle))]
fn extra_fens() -> Vec<&'static str> {
    Vec::new()
}

fn arg<'a>(args: &'a [String], name: &str) -> Option<&'a str> {
    args.iter().position(|a| a == name).and_then(|i| args.get(i + 1)).map(|s| s.as_str())
}

fn parse_tier(s: Option<&str>) -> Tier {
    match s {
        Some("thorough") => Tier::Thorough,
        _ => Tier::Quick,
    }
}

fn main() {
    let args: Vec<String> = std::env::args().collect();
    let cmd = args.get(1).map(|s| s.as_str()).unwrap_or("");
    install_panic_hook();
    #[cfg(not(chess_verif_shuttle))]
    {
        // fixed in-order schedule: every parallel region of the engine runs on one pool thread
        rayon::ThreadPoolBuilder::new()
            .num_threads(1)
            .stack_size(256 << 20)
            .build_global()
            .expect("rayon pool");
    }
    match cmd {
        #[cfg(not(chess_verif_shuttle))]
        "stockfish-stub" => {
            cli::stockfish_stub();
        }
        #[cfg(not(chess_verif_shuttle))]
        "keyprobe" => {
            println!("{}", tables::keyprobe());
        }
        "selftest" => {
            let deep = args.iter().any(|a| a == "--deep");
            match model::self_test(deep) {
                Ok(()) => {
                    let mut bad = false;
                    for f in gen::SPECIAL_FENS.iter().chain(gen::ENDGAME_FENS.iter()).chain(gen::TERMINAL_FENS.iter()).chain(extra_fens().iter()) {
                        let p = model::Pos::from_fen(f).unwrap();
                        if !p.is_consistent() {
                            eprintln!("selftest: inconsistent built-in position {}", f);
                            bad = true;
                        }
                    }
                    if bad {
                        std::process::exit(2);
                    }
                    println!("selftest ok");
                }
                Err(e) => {
                    eprintln!("selftest FAILED: {}", e);
                    std::process::exit(2);
                }
            }
        }
        "plan" => {
            let prop = arg(&args, "--prop").expect("--prop");
            let seed: u64 = arg(&args, "--seed").unwrap_or("1").parse().unwrap();
            let index: u64 = arg(&args, "--index").unwrap_or("0").parse().unwrap();
            let p = gen_plan(prop, seed, index, parse_tier(arg(&args, "--tier")));
            println!("{}", serde_json::to_string_pretty(&p).unwrap());
        }
        "run" => {
            let prop = arg(&args, "--prop").expect("--prop").to_string();
            let tier = parse_tier(arg(&args, "--tier"));
            let seed: u64 = arg(&args, "--seed").unwrap_or("1").parse().unwrap();
            let from: u64 = arg(&args, "--from").unwrap_or("0").parse().unwrap();
            let to: u64 = arg(&args, "--to").unwrap_or("100").parse().unwrap();
            let stride: u64 = arg(&args, "--stride").unwrap_or("1").parse().unwrap();
            let deadline_ms: u64 = arg(&args, "--deadline-ms").unwrap_or("0").parse().unwrap();
            let max_violations: usize = arg(&args, "--max-violations").unwrap_or("4").parse().unwrap();
            if let Err(e) = model::self_test(false) {
                eprintln!("model self-test failed: {}", e);
                std::process::exit(2);
            }
            let t0 = Instant::now();
            start_watchdog(match prop.as_str() { "C14CLI" => "C14".to_string(), "C10CLI" => "C10".to_string(), "C19CLI" => "C19".to_string(), p => p.to_string() }, false);
            let mut sum = Summary {
                property: prop.clone(),
                tier: format!("{:?}", tier).to_lowercase(),
                seed,
                from,
                to,
                ..Default::default()
            };
            let mut stats = Stats::default();
            let mut index = from;
            while index < to {
                if deadline_ms > 0 && t0.elapsed().as_millis() as u64 > deadline_ms {
                    sum.stopped_by_deadline = true;
                    break;
                }
                let plan = gen_plan(&prop, seed, index, tier);
                *WATCH.lock().unwrap() = Some((serde_json::to_string(&plan).unwrap(), Instant::now(), String::new(), cpu_seconds()));
                let o = exec(&plan);
                *WATCH.lock().unwrap() = None;
                sum.runs += 1;
                sum.oracle_evals += o.oracle_evals;
                if o.oracle_evals > 1 {
                    sum.nontrivial_runs += 1;
                    sum.signatures.push(plan.signature());
                }
                sum.digest_xor ^= o.digest.rotate_left((index % 63) as u32);
                sum.digest_sum = sum.digest_sum.wrapping_add(o.digest);
                stats.merge(&o.stats);
                if sum.state_sample.len() < 200_000 {
                    sum.state_sample.extend(o.state_sample.iter());
                }
                if sum.samples.len() < 2 && o.oracle_evals > 1 {
                    sum.samples.push(plan.clone());
                }
                if let Some(d) = o.desync {
                    sum.desyncs += 1;
                    if sum.desync_samples.len() < 5 {
                        sum.desync_samples.push(format!("run {}: {}", index, d));
                    }
                }
                sum.interleavings.extend(o.interleavings.iter());
                if let Some(v) = o.violation {
                    sum.violating_runs += 1;
                    if sum.violations.iter().any(|x| x.class == v.class) {
                        // one replay per class is kept; the batch goes on so that a known class
                        // cannot hide a different one
                        index += stride;
                        continue;
                    }
                    let mut plan = plan;
                    if let Some(s) = o.schedule {
                        plan.schedule = s;
                    }
                    sum.violations.push(ReplayFile {
                        property: plan.property.clone(),
                        class: v.class,
                        detail: v.detail,
                        original_ops: plan.ops.len(),
                        shrink_execs: 0,
                        plan,
                        prefix: Some(Prefix {
                            prop_arg: prop.clone(),
                            tier: format!("{:?}", tier).to_lowercase(),
                            seed,
                            from,
                            stride,
                            upto: index,
                        }),
                    });
                    if sum.violations.len() >= max_violations {
                        break;
                    }
                }
                index += stride;
            }
            sum.state_sample.sort_unstable();
            sum.state_sample.dedup();
            sum.interleavings.sort_unstable();
            sum.interleavings.dedup();
            sum.counters = stats.counters;
            sum.wall_ms = t0.elapsed().as_millis() as u64;
            println!("{}", serde_json::to_string(&sum).unwrap());
        }
        "replay" => {
            let file = arg(&args, "--file").expect("--file");
            let text = std::fs::read_to_string(file).unwrap_or_else(|e| {
                eprintln!("cannot read {}: {}", file, e);
                std::process::exit(2)
            });
            let rf: ReplayFile = serde_json::from_str(&text).unwrap_or_else(|e| {
                eprintln!("cannot parse {}: {}", file, e);
                std::process::exit(2)
            });
            start_watchdog(rf.property.clone(), true);
            if args.iter().any(|a| a == "--with-prefix") {
                if let Some(p) = &rf.prefix {
                    // the worker's earlier runs, in the same process, to rebuild the engine's process-wide state
                    let tier = parse_tier(Some(p.tier.as_str()));
                    let mut index = p.from;
                    while index < p.upto {
                        let plan = gen_plan(&p.prop_arg, p.seed, index, tier);
                        *WATCH.lock().unwrap() = Some((serde_json::to_string(&plan).unwrap(), Instant::now(), String::new(), cpu_seconds()));
                        let _ = exec(&plan);
                        index += p.stride;
                    }
                }
            }
            *WATCH.lock().unwrap() = Some((serde_json::to_string(&rf.plan).unwrap(), Instant::now(), rf.class.clone(), cpu_seconds()));
            let o = exec(&rf.plan);
            *WATCH.lock().unwrap() = None;
            match o.violation {
                Some(v) if v.class == rf.class => {
                    println!("REPRODUCED class={} at_op={} detail={}", v.class, v.at_op, v.detail);
                    std::process::exit(1);
                }
                Some(v) => {
                    println!("DIFFERENT class={} (expected {}) detail={}", v.class, rf.class, v.detail);
                    std::process::exit(3);
                }
                None => {
                    println!("NOT-REPRODUCED expected class={} desync={:?}", rf.class, o.desync);
                    std::process::exit(0);
                }
            }
        }
        "shrink" => {
            let file = arg(&args, "--file").expect("--file");
            let outp = arg(&args, "--out").expect("--out");
            let budget: usize = arg(&args, "--budget").unwrap_or("300").parse().unwrap();
            // wall-clock bound on minimisation: past it every further candidate counts as "does not
            // fail", so the best plan found so far is written out
            let max_seconds: u64 = arg(&args, "--max-seconds").unwrap_or("600").parse().unwrap();
            let shrink_deadline = Instant::now() + std::time::Duration::from_secs(max_seconds);
            let text = std::fs::read_to_string(file).expect("read");
            let mut rf: ReplayFile = serde_json::from_str(&text).expect("parse");
            let class = rf.class.clone();
            let original = rf.plan.ops.len();
            #[cfg(chess_verif_shuttle)]
            let (best, execs) = sched::shrink(&rf.plan, &class, budget.min(12));
            #[cfg(not(chess_verif_shuttle))]
            let (best, execs) = {
                let (mut best, mut execs) = plan::shrink(&rf.plan, &class, budget, |p| if Instant::now() > shrink_deadline { None } else { exec(p).violation.map(|v| v.class) });
                // simpler start position: pieces that play no part are taken off the board
                if let Some(start) = model::Pos::from_fen(&best.start_fen) {
                    let mut cur = start;
                    for s in 0..64usize {
                        if execs >= budget + 64 || Instant::now() > shrink_deadline {
                            break;
                        }
                        match cur.sq[s] {
                            Some((p, _)) if p != model::P::King => {}
                            _ => continue,
                        }
                        let mut cand_pos = cur.clone();
                        cand_pos.sq[s] = None;
                        // rights that the placement no longer supports go with the piece
                        for (bit, k, r, side) in [(model::WK, 4usize, 7usize, model::Side::White), (model::WQ, 4, 0, model::Side::White), (model::BK, 60, 63, model::Side::Black), (model::BQ, 60, 56, model::Side::Black)] {
                            if cand_pos.rights & bit != 0 && !(cand_pos.sq[k] == Some((model::P::King, side)) && cand_pos.sq[r] == Some((model::P::Rook, side))) {
                                cand_pos.rights &= !bit;
                            }
                        }
                        if !cand_pos.is_consistent() {
                            continue;
                        }
                        let mut cand = best.clone();
                        cand.start_fen = cand_pos.to_fen();
                        execs += 1;
                        if exec(&cand).violation.map(|v| v.class).as_deref() == Some(class.as_str()) {
                            best = cand;
                            cur = cand_pos;
                        }
                    }
                }
                (best, execs)
            };
            // final confirmation + detail of the minimised run
            let o = exec(&best);
            match o.violation {
                Some(v) if v.class == class => {
                    rf.detail = v.detail;
                    rf.plan = best;
                }
                _ => {
                    // shrinking must never lose the failure; keep the original
                }
            }
            rf.original_ops = original;
            rf.shrink_execs = execs;
            std::fs::write(outp, serde_json::to_string_pretty(&rf).unwrap()).expect("write");
            println!("shrunk {} -> {} ops in {} executions", original, rf.plan.ops.len(), execs);
        }
        _ => {
            eprintln!("usage: sim selftest|plan|run|replay|shrink ...");
            std::process::exit(2);
        }
    }
}
