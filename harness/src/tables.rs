//! C11, as-built configuration: every (square, relevant-blocker-subset) case of
//! the rook and bishop tables — 102,400 + 5,248, enumerated completely over run
//! indices 0..64 (one square per run) — plus seeded supersets of the occupancy,
//! queens, and all 64 knight and king squares, through the public
//! `MoveGenerator::get_attack_targets`, against an independent ray walk.

use chess::board::color::Color;
use chess::board::piece::Piece;
use chess::board::Board;
use chess::move_generator::MoveGenerator;

use crate::eng::bb;
use crate::model::{file_of, mk_sq, rank_of, sq_name};
use crate::plan::{Outcome, Plan, Stats, Violation};
use crate::prng::{mix, Digest, Rng};
use crate::{set_phase, Tier};

const ROOK_D: [(i8, i8); 4] = [(1, 0), (-1, 0), (0, 1), (0, -1)];
const BISHOP_D: [(i8, i8); 4] = [(1, 1), (1, -1), (-1, 1), (-1, -1)];

fn ray_attacks(sq: u8, occ: u64, dirs: &[(i8, i8)]) -> u64 {
    let mut out = 0u64;
    for &(df, dr) in dirs {
        let (mut f, mut r) = (file_of(sq) + df, rank_of(sq) + dr);
        while let Some(s) = mk_sq(f, r) {
            out |= 1 << s;
            if occ & (1 << s) != 0 {
                break;
            }
            f += df;
            r += dr;
        }
    }
    out
}

/// Relevant blocker squares: ray squares excluding the last square of each ray.
fn relevant_mask(sq: u8, dirs: &[(i8, i8)]) -> u64 {
    let mut out = 0u64;
    for &(df, dr) in dirs {
        let (mut f, mut r) = (file_of(sq) + df, rank_of(sq) + dr);
        while let Some(s) = mk_sq(f, r) {
            if mk_sq(f + df, r + dr).is_none() {
                break;
            }
            out |= 1 << s;
            f += df;
            r += dr;
        }
    }
    out
}

fn step_attacks(sq: u8, deltas: &[(i8, i8)]) -> u64 {
    let mut out = 0u64;
    for &(df, dr) in deltas {
        if let Some(s) = mk_sq(file_of(sq) + df, rank_of(sq) + dr) {
            out |= 1 << s;
        }
    }
    out
}

pub fn gen_plan(property: &str, seed: u64, index: u64, _tier: Tier) -> Plan {
    let mut knobs = std::collections::BTreeMap::new();
    knobs.insert("square".to_string(), (index % 64) as i64);
    knobs.insert("round".to_string(), (index / 64) as i64);
    Plan {
        property: property.to_string(),
        scenario: "as-built-table-enumeration".to_string(),
        seed,
        index,
        start_fen: String::new(),
        lru: 4096,
        register: false,
        knobs,
        ops: Vec::new(),
        schedule: String::new(),
    }
}

/// The other pieces are enemy pieces of every kind — "every arrangement of other pieces" —
/// including (at most one) enemy king: a blocker is a blocker whatever it is.
fn query(gen: &mut MoveGenerator, piece: Piece, sq: u8, occ_enemy: u64, us: Color) -> u64 {
    let mut board = Board::new();
    board.put(bb(sq), piece, us).unwrap();
    let mut rest = occ_enemy & !(1u64 << sq);
    let kinds = [Piece::Knight, Piece::Pawn, Piece::King, Piece::Bishop, Piece::Rook, Piece::Queen];
    let mut n = (occ_enemy ^ (occ_enemy >> 17)) as usize;
    let mut king_used = false;
    while rest != 0 {
        let s = rest.trailing_zeros() as u8;
        rest &= rest - 1;
        let mut kind = kinds[n % kinds.len()];
        n = n / 3 + s as usize;
        if kind == Piece::King {
            if king_used {
                kind = Piece::Knight;
            }
            king_used = true;
        }
        board.put(bb(s), kind, us.opposite()).unwrap();
    }
    gen.get_attack_targets(&board, us).0
}

pub fn exec(plan: &Plan) -> Outcome {
    let mut out = Outcome::default();
    let mut stats = Stats::default();
    let mut digest = Digest::new();
    let mut evals = 0u64;
    chess::verif_hooks::set_lru_capacity(plan.lru);
    set_phase("tables");
    let sq = plan.knob("square", 0) as u8;
    let round = plan.knob("round", 0) as u64;
    let mut rng = Rng::new(mix(plan.seed, plan.index, 0x5441));
    let mut gen = MoveGenerator::new();
    let us = if (sq as u64 + round) % 2 == 0 { Color::White } else { Color::Black };

    for (name, piece, dirs) in [("rook", Piece::Rook, &ROOK_D), ("bishop", Piece::Bishop, &BISHOP_D)] {
        let mask = relevant_mask(sq, dirs);
        let mut sub = 0u64;
        loop {
            // exact subset
            let want = ray_attacks(sq, sub, dirs);
            let got = query(&mut gen, piece, sq, sub, us);
            evals += 1;
            stats.bump(if name == "rook" { "cases/rook-subset" } else { "cases/bishop-subset" });
            digest.eat(got);
            if got != want {
                out.violation = Some(Violation {
                    class: format!("C11/{}-attacks-wrong/exact-blocker-subset", name),
                    detail: format!("{} on {} with blockers {:016x}: reported {:016x}, ray walk {:016x}", name, sq_name(sq), sub, got, want),
                    at_op: 0,
                });
                break;
            }
            // supersets: extra pieces off the mask must not matter
            for _ in 0..(if round == 0 { 1 } else { 3 }) {
                let extra = rng.next() & rng.next() & !mask & !(1u64 << sq);
                let occ = sub | extra;
                let want = ray_attacks(sq, occ, dirs);
                let got = query(&mut gen, piece, sq, occ, us);
                evals += 1;
                stats.bump("fault/extra-pieces-off-the-mask");
                if got != want {
                    out.violation = Some(Violation {
                        class: format!("C11/{}-attacks-wrong/with-extra-pieces", name),
                        detail: format!("{} on {} with occupancy {:016x}: reported {:016x}, ray walk {:016x}", name, sq_name(sq), occ, got, want),
                        at_op: 0,
                    });
                    break;
                }
            }
            if out.violation.is_some() {
                break;
            }
            sub = sub.wrapping_sub(mask) & mask;
            if sub == 0 {
                break;
            }
        }
        if out.violation.is_some() {
            break;
        }
    }
    if out.violation.is_none() {
        // queens: seeded occupancies
        for _ in 0..200 {
            let occ = rng.next() & rng.next() & !(1u64 << sq);
            let want = ray_attacks(sq, occ, &ROOK_D) | ray_attacks(sq, occ, &BISHOP_D);
            let got = query(&mut gen, Piece::Queen, sq, occ, us);
            evals += 1;
            stats.bump("cases/queen");
            if got != want {
                out.violation = Some(Violation {
                    class: "C11/queen-attacks-wrong".into(),
                    detail: format!("queen on {} with occupancy {:016x}: reported {:016x}, ray walk {:016x}", sq_name(sq), occ, got, want),
                    at_op: 0,
                });
                break;
            }
        }
    }
    if out.violation.is_none() {
        let knight_d = [(1, 2), (2, 1), (2, -1), (1, -2), (-1, -2), (-2, -1), (-2, 1), (-1, 2)];
        let king_d = [(1, 0), (1, 1), (0, 1), (-1, 1), (-1, 0), (-1, -1), (0, -1), (1, -1)];
        for (name, piece, deltas) in [("knight", Piece::Knight, &knight_d), ("king", Piece::King, &king_d)] {
            for extra in [0u64, rng.next() & rng.next() & !(1u64 << sq)] {
                let want = step_attacks(sq, deltas);
                let got = query(&mut gen, piece, sq, extra, us);
                evals += 1;
                stats.bump("cases/knight-king");
                if got != want {
                    out.violation = Some(Violation {
                        class: format!("C11/{}-attacks-wrong", name),
                        detail: format!("{} on {}: reported {:016x}, expected {:016x}", name, sq_name(sq), got, want),
                        at_op: 0,
                    });
                }
            }
        }
    }
    if out.violation.is_none() {
        composite_positions(&mut gen, &mut rng, &mut out, &mut stats, &mut digest, &mut evals);
    }
    out.stats = stats;
    out.digest = digest.0;
    out.oracle_evals = evals;
    out
}

/// The same tables read in whole positions: every piece of a colour at once, both colours,
/// in set-up positions and along seeded games (so also while that colour is giving check,
/// which is when the engine itself asks), with one long-lived generator. The reported map
/// must be the union of the per-piece walks; squares holding the colour's own pieces are
/// left out of the comparison (the engine's convention there is not part of the property),
/// and so are the squares next to the colour's pawns (pawn attacks are not C11's subject).
fn composite_positions(gen: &mut MoveGenerator, rng: &mut Rng, out: &mut Outcome, stats: &mut Stats, digest: &mut Digest, evals: &mut u64) {
    use crate::eng::{build_board, color};
    use crate::gen::{choose_move, choose_start, random_setup, Policy, StartKind};
    use crate::model::{Pos, Side};
    set_phase("tables-composite");
    let mut check_one = |pos: &Pos, gen: &mut MoveGenerator, out: &mut Outcome, stats: &mut Stats, digest: &mut Digest, evals: &mut u64| -> bool {
        let board = build_board(pos, None);
        for side in [Side::White, Side::Black] {
            let mut want = 0u64;
            let mut own = 0u64;
            for s in 0..64u8 {
                if let Some((p, c)) = pos.sq[s as usize] {
                    if c == side {
                        own |= 1u64 << s;
                        want |= pos.piece_attacks(s);
                        if p == crate::model::P::Pawn {
                            // the property speaks about rooks, bishops, queens, knights and kings: squares
                            // a pawn of this colour bears on (also across the board edge) are left out
                            for d in [7i16, 9, -7, -9] {
                                let t = s as i16 + d;
                                if (0..64).contains(&t) {
                                    own |= 1u64 << t;
                                }
                            }
                        }
                    }
                }
            }
            let got = gen.get_attack_targets(&board, color(side)).0;
            *evals += 1;
            stats.bump("cases/composite-position");
            if pos.in_check(side.other()) {
                stats.bump("probe/composite-map-of-a-side-giving-check");
            }
            digest.eat(got & !own);
            if (got & !own) != (want & !own) {
                out.violation = Some(Violation {
                    class: format!("C11/attack-map-wrong/composite-position/{}", if got & !own & !want != 0 { "extra-squares" } else { "missing-squares" }),
                    detail: format!("{}: squares attacked by {:?} reported {:016x}, per-piece walks {:016x} (own-occupied squares masked)", pos.to_fen(), side, got & !own, want & !own),
                    at_op: 0,
                });
                return false;
            }
        }
        true
    };
    for _ in 0..12 {
        let extra = rng.range(0, 14) as usize;
        let pos = random_setup(rng, extra);
        if !check_one(&pos, gen, out, stats, digest, evals) {
            return;
        }
    }
    for _ in 0..3 {
        let (_, mut pos) = choose_start(rng, &[(StartKind::Initial, 2), (StartKind::Special, 3), (StartKind::Endgame, 2), (StartKind::Random, 2)]);
        let policy = *rng.pick(&[Policy::Hunt, Policy::Spicy, Policy::Uniform]);
        for _ in 0..rng.range(10, 40) {
            let legal = pos.legal_moves();
            if legal.is_empty() {
                break;
            }
            let k = choose_move(rng, &pos, &legal, policy, None);
            pos = pos.make(&legal[k]);
            if !check_one(&pos, gen, out, stats, digest, evals) {
                return;
            }
        }
    }
}

/// Build-configuration probe through the public API only: every key constant read black-box from
/// single-feature boards, and the complete slider enumeration of this build's tables. Prints the
/// same JSON shape as /verif/cfgprobe.
pub fn keyprobe() -> String {
    use crate::model::ALL_P;
    let mut problems: Vec<String> = Vec::new();
    let mut piece_keys: Vec<u64> = Vec::new();
    for p in ALL_P {
        for sq in 0..64u8 {
            for c in [Color::Black, Color::White] {
                let mut b = Board::new();
                b.put(bb(sq), crate::eng::piece(p), c).unwrap();
                piece_keys.push(b.current_position_hash());
            }
        }
    }
    let mut rights_keys: Vec<u64> = Vec::new();
    for r in 0..16u8 {
        let mut b = Board::new();
        b.lose_castle_rights(0b1111 & !r);
        rights_keys.push(b.current_position_hash());
    }
    let mut ep_keys: Vec<u64> = Vec::new();
    for sq in (16..24u8).chain(40..48u8) {
        let mut b = Board::new();
        b.push_en_passant_target(bb(sq));
        ep_keys.push(b.current_position_hash());
    }
    let distinct = |v: &Vec<u64>| {
        let mut s = v.clone();
        s.sort_unstable();
        s.dedup();
        s.len()
    };
    if distinct(&piece_keys) != 768 {
        problems.push(format!("C05|piece-keys-not-pairwise-distinct|{} distinct of 768", distinct(&piece_keys)));
    }
    if piece_keys.iter().any(|k| *k == 0) {
        problems.push("C05|piece-key-zero|a (piece, colour, square) constant is 0".to_string());
    }
    if distinct(&rights_keys) != 16 {
        problems.push(format!("C05|castling-rights-keys-not-pairwise-distinct|{} distinct of 16", distinct(&rights_keys)));
    }
    if distinct(&ep_keys) != 16 {
        problems.push(format!("C05|en-passant-keys-not-pairwise-distinct|{} distinct of 16", distinct(&ep_keys)));
    }
    if ep_keys.iter().any(|k| *k == 0) {
        problems.push("C05|en-passant-key-zero|an en-passant constant is 0".to_string());
    }
    let mut all = piece_keys.clone();
    all.extend(ep_keys.iter());
    if distinct(&all) != 784 && distinct(&piece_keys) == 768 && distinct(&ep_keys) == 16 {
        problems.push(format!("C05|piece-and-en-passant-keys-collide|{} distinct of 784 piece and en-passant constants", distinct(&all)));
    }
    let mut cases = 0u64;
    let mut bad = 0u64;
    for sq in 0..64u64 {
        let plan = gen_plan("C11", 1, sq + 64, Tier::Quick);
        let o = exec(&plan);
        cases += o.oracle_evals;
        if let Some(v) = o.violation {
            bad += 1;
            if bad <= 3 {
                let what = if v.class.contains("rook") { "rook-table-wrong" } else if v.class.contains("bishop") { "bishop-table-wrong" } else { "attack-table-wrong" };
                problems.push(format!("C11|{}|{}", what, v.detail.replace('"', "'")));
            }
        }
    }
    format!(
        "{{\"piece_keys_distinct\": {}, \"rights_keys_distinct\": {}, \"ep_keys_distinct\": {}, \"piece_and_ep_distinct\": {}, \"slider_cases\": {}, \"slider_cases_wrong\": {}, \"problems\": [{}]}}",
        distinct(&piece_keys),
        distinct(&rights_keys),
        distinct(&ep_keys),
        distinct(&all),
        cases,
        bad,
        problems.iter().map(|p| format!("\"{}\"", p.replace('"', "'"))).collect::<Vec<_>>().join(", ")
    )
}
