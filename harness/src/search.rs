//! Search and position-counting scenarios in build A (real rayon, one-thread
//! pool => fixed in-order schedule, so only the *history* dimension varies):
//! C07 (legal answer / declared errors / board untouched), C08 (value and move
//! equal exact fixed-depth minimax, fresh and reused context), C10 (counts vs
//! the model's perft, fresh and used generators, LRU knob).

use chess::alpha_beta_searcher::{alpha_beta_search, SearchContext, SearchError};
use chess::board::Board;
use chess::chess_move::chess_move::ChessMove;
use chess::evaluate;
use chess::game::game::{Game, GameError};
use chess::move_generator::MoveGenerator;

use crate::eng::*;
use crate::gen::{choose_move, choose_move_seen, choose_start, Policy, Seen, StartKind, TERMINAL_FENS};
use crate::model::{Mv, Pos, Side};
#[allow(unused_imports)]
use crate::model::P;
use crate::plan::{Op, Outcome, Plan, Stats, Violation};
use crate::prng::{mix, Digest, Rng};
use crate::{set_phase, Tier};

struct MateTable {
    /// score(side-to-move mated, remaining depth d) for d = 0..=8; [0] white mated, [1] black mated
    mated: [[i16; 9]; 2],
    stalemate: i16,
}

fn read_mate_table() -> MateTable {
    let white_mated = Pos::from_fen("rnb1kbnr/pppp1ppp/8/4p3/6Pq/5P2/PPPPP2P/RNBQKBNR w KQkq - 0 3").unwrap();
    let black_mated = Pos::from_fen("R5k1/5ppp/8/8/8/8/8/K7 b - - 0 1").unwrap();
    let stale = Pos::from_fen("7k/5Q2/6K1/8/8/8/8/8 b - - 0 1").unwrap();
    let mut t = MateTable {
        mated: [[0; 9]; 2],
        stalemate: 0,
    };
    for (i, p) in [white_mated, black_mated].iter().enumerate() {
        for d in 0..9u8 {
            let mut b = build_board(p, None);
            let mut g = MoveGenerator::new();
            t.mated[i][d as usize] = evaluate::score(&mut b, &mut g, color(p.stm), d);
        }
    }
    let mut b = build_board(&stale, None);
    let mut g = MoveGenerator::new();
    t.stalemate = evaluate::score(&mut b, &mut g, color(stale.stm), 3);
    t
}

fn leaf_value(pos: &Pos) -> i16 {
    evaluate::board_material_score(&build_board(pos, None))
}

/// Pruning-free, cache-free minimax over the model's move generator.
fn ref_minimax(pos: &Pos, depth: u8, t: &MateTable, nodes: &mut u64) -> i16 {
    *nodes += 1;
    if depth == 0 {
        if !pos.has_legal_move() {
            return if pos.in_check(pos.stm) {
                t.mated[if pos.stm == Side::White { 0 } else { 1 }][0]
            } else {
                0
            };
        }
        return leaf_value(pos);
    }
    let legal = pos.legal_moves();
    if legal.is_empty() {
        return if pos.in_check(pos.stm) {
            t.mated[if pos.stm == Side::White { 0 } else { 1 }][depth as usize]
        } else {
            0
        };
    }
    let mut best: Option<i16> = None;
    for m in legal.iter() {
        let v = ref_minimax(&pos.make(m), depth - 1, t, nodes);
        best = Some(match best {
            None => v,
            Some(b) => {
                if pos.stm == Side::White {
                    b.max(v)
                } else {
                    b.min(v)
                }
            }
        });
    }
    best.unwrap()
}

// ------------------------------------------------------------------ generation

pub fn gen_plan(property: &str, seed: u64, index: u64, tier: Tier) -> Plan {
    let mut rng = Rng::new(mix(seed, index, 0x5345));
    let thorough = tier == Tier::Thorough;
    let mut knobs = std::collections::BTreeMap::new();
    let mut ops: Vec<Op> = Vec::new();
    let scenario: &str;
    let start: Pos;
    let lru;
    match property {
        "C07" => {
            lru = *rng.pick(&[7usize, 64, 4096]);
            // >= 20% terminal / near-terminal starts
            let roll = rng.below(10);
            if index % 397 == 13 {
                // context soak: one Game (one search context, one result cache) answers every move of a
                // middlegame at depth 4, so that its cache grows to several hundred thousand entries
                let (_, s) = choose_start(&mut rng, &[(StartKind::Initial, 2), (StartKind::Suite, 1)]);
                let mut pos = s.clone();
                for _ in 0..rng.range(if thorough { 36 } else { 28 }, if thorough { 50 } else { 34 }) {
                    let legal = pos.legal_moves();
                    if legal.is_empty() {
                        break;
                    }
                    ops.push(Op::Search(4));
                    let k = choose_move(&mut rng, &pos, &legal, Policy::Spicy, None);
                    ops.push(Op::Make(k as u32));
                    pos = pos.make(&legal[k]);
                }
                knobs.insert("via_game".to_string(), 1);
                knobs.insert("game_depth".to_string(), 4);
                return Plan {
                    property: property.to_string(),
                    scenario: "context-soak".to_string(),
                    seed,
                    index,
                    start_fen: s.to_fen(),
                    lru,
                    register: false,
                    knobs,
                    ops,
                    schedule: String::new(),
                };
            }
            if index % 10 == 7 {
                // late game: a long quiet stretch takes the half-move clock to and past 100, or a
                // registered shuffle reaches a third occurrence; a legal move must still be returned
                let (_, s) = choose_start(&mut rng, &[(StartKind::Endgame, 3), (StartKind::Initial, 1), (StartKind::Special, 1)]);
                let repetition = rng.chance(1, 2);
                // one in five of the long stretches is a very long game (several hundred plies of
                // history on the board when the search is asked)
                let very_long = !repetition && rng.chance(1, 5);
                let plies = if repetition { rng.range(9, 16) } else if very_long { rng.range(258, 320) } else { rng.range(98, 112) };
                let mut pos = s.clone();
                let mut own: [Option<Mv>; 2] = [None, None];
                for n in 0..plies {
                    let legal = pos.legal_moves();
                    if legal.is_empty() {
                        break;
                    }
                    let side = pos.stm as usize;
                    let k = choose_move(&mut rng, &pos, &legal, if repetition { Policy::Shuffle } else if very_long { Policy::Quiet } else { Policy::Frozen }, own[side].as_ref());
                    ops.push(Op::Make(k as u32));
                    own[side] = Some(legal[k]);
                    pos = pos.make(&legal[k]);
                    if n + 6 >= plies {
                        ops.push(Op::Search(if very_long { 2 } else { 1 }));
                    } else if very_long && n >= 120 && rng.chance(1, 3) {
                        // asked all along the second half of a very long game
                        ops.push(Op::Search(rng.range(1, 3) as u8));
                    }
                }
                knobs.insert("via_game".to_string(), 0);
                knobs.insert("game_depth".to_string(), 1);
                return Plan {
                    property: property.to_string(),
                    scenario: if repetition { "registered-shuffle".to_string() } else if very_long { "very-long-game".to_string() } else { "long-quiet-stretch".to_string() },
                    seed,
                    index,
                    start_fen: s.to_fen(),
                    lru,
                    register: repetition,
                    knobs,
                    ops,
                    schedule: String::new(),
                };
            }
            if roll < 2 {
                start = Pos::from_fen(*rng.pick(&TERMINAL_FENS[..])).unwrap();
                scenario = "terminal-start";
            } else if roll < 5 {
                let (_, s) = choose_start(&mut rng, &[(StartKind::Endgame, 3), (StartKind::Special, 2)]);
                start = s;
                scenario = "hunted-ending";
            } else {
                let (_, s) = choose_start(
                    &mut rng,
                    &[(StartKind::Initial, 2), (StartKind::Suite, 2), (StartKind::Special, 3), (StartKind::Random, 4)],
                );
                start = s;
                scenario = "game-walk";
            }
            let via_game = rng.chance(1, 3);
            knobs.insert("via_game".to_string(), via_game as i64);
            let game_depth = rng.range(0, 2) as i64;
            knobs.insert("game_depth".to_string(), game_depth);
            let policy = if scenario == "game-walk" && rng.chance(1, 3) { Policy::Lookalike } else if scenario == "game-walk" { Policy::Spicy } else { Policy::Hunt };
            let mut seen = Seen::default();
            let len = rng.range(6, if thorough { 40 } else { 24 });
            let mut pos = start.clone();
            let mut stack = vec![pos.clone()];
            for _ in 0..len {
                let crowded = pos.piece_count() > 12;
                let maxd = if crowded { 2 } else { 3 };
                let d = if rng.chance(1, 12) { 0 } else { rng.range(1, maxd) as u8 };
                ops.push(Op::Search(d));
                let legal = pos.legal_moves();
                if legal.is_empty() || (stack.len() > 1 && rng.chance(1, 6)) {
                    if stack.len() > 1 {
                        ops.push(Op::Undo);
                        stack.pop();
                        pos = stack.last().unwrap().clone();
                    } else {
                        break;
                    }
                    continue;
                }
                let k = choose_move_seen(&mut rng, &pos, &legal, policy, None, &mut seen);
                ops.push(Op::Make(k as u32));
                if legal[k].double || legal[k].castle.is_some() || legal[k].promo.is_some() {
                    // right after the moves whose bookkeeping is most fragile, ask at once
                    ops.push(Op::Search(1));
                }
                pos = pos.make(&legal[k]);
                stack.push(pos.clone());
            }
            ops.push(Op::Search(1));
        }
        "C08" => {
            lru = *rng.pick(&[64usize, 4096, 100_000]);
            let mode = rng.below(10);
            let depth: u8;
            if mode < 3 {
                // fresh context per search, sparse board, deeper
                let (_, s) = choose_start(&mut rng, &[(StartKind::Endgame, 1)]);
                let roll = rng.below(8);
                start = if roll < 2 { Pos::from_fen(*rng.pick(&TERMINAL_FENS[..])).unwrap() } else if roll == 2 { crate::gen::promotion_ending(&mut rng) } else if roll == 3 { crate::gen::stalemate_trick_ending(&mut rng) } else { s };
                depth = if roll >= 2 && roll < 4 { rng.range(2, 4) as u8 } else if thorough { rng.range(3, 5) as u8 } else { rng.range(3, 4) as u8 };
                knobs.insert("reuse".into(), 0);
                scenario = "fresh-context-endgame";
            } else if mode < 5 {
                let (_, s) = choose_start(&mut rng, &[(StartKind::Initial, 1), (StartKind::Suite, 2), (StartKind::Special, 2), (StartKind::Random, 3)]);
                start = s;
                depth = rng.range(1, if start.piece_count() > 16 { 2 } else { 3 }) as u8;
                knobs.insert("reuse".into(), 0);
                scenario = "fresh-context-middlegame";
            } else {
                // one context reused over the successive positions of a game
                let (_, s) = choose_start(
                    &mut rng,
                    &[(StartKind::Initial, 2), (StartKind::Special, 3), (StartKind::Endgame, 3), (StartKind::Random, 3), (StartKind::Suite, 1), (StartKind::SingleReply, 2)],
                );
                start = s;
                let crowded = start.piece_count() > 14;
                depth = if crowded { rng.range(1, 2) as u8 } else { rng.range(2, 3) as u8 };
                knobs.insert("reuse".into(), 1);
                // through the Game wrapper (its own long-lived context and generator), as the loops do
                knobs.insert("via_game".into(), rng.chance(1, 3) as i64);
                // 0: search for both sides (watch); 1: only for one side (play)
                knobs.insert("one_side".into(), rng.chance(1, 2) as i64);
                scenario = "reused-context-game";
            }
            knobs.insert("depth".into(), depth as i64);
            let lookalike = knobs["reuse"] == 1 && rng.chance(1, 3);
            let mut seen = Seen::default();
            let searches = if lookalike { rng.range(6, if thorough { 14 } else { 9 }) } else if knobs["reuse"] == 1 { rng.range(3, if thorough { 10 } else { 6 }) } else { rng.range(1, 2) };
            let one_side = knobs.get("one_side").copied().unwrap_or(0) == 1;
            let engine_side = start.stm;
            let mut pos = start.clone();
            let mut stack = vec![pos.clone()];
            let mut done = 0;
            let mut guard = 0;
            while done < searches && guard < 60 {
                guard += 1;
                if !one_side || pos.stm == engine_side {
                    ops.push(Op::Search(depth));
                    done += 1;
                }
                let legal = pos.legal_moves();
                if legal.is_empty() {
                    if stack.len() > 1 {
                        ops.push(Op::Undo);
                        stack.pop();
                        pos = stack.last().unwrap().clone();
                        continue;
                    }
                    break;
                }
                if stack.len() > 2 && rng.chance(1, 6) {
                    // go back and re-search an earlier position
                    ops.push(Op::Undo);
                    stack.pop();
                    ops.push(Op::Undo);
                    stack.pop();
                    pos = stack.last().unwrap().clone();
                    continue;
                }
                if pos.half + depth as u32 + 2 >= 100 {
                    break;
                }
                let via_game = knobs.get("via_game").copied().unwrap_or(0) == 1;
                let pol = if lookalike { Policy::Lookalike } else if via_game && rng.chance(2, 3) { Policy::Squeeze } else if rng.chance(1, 2) { Policy::Spicy } else { Policy::Uniform };
                let k = choose_move_seen(&mut rng, &pos, &legal, pol, None, &mut seen);
                ops.push(Op::Make(k as u32));
                pos = pos.make(&legal[k]);
                stack.push(pos.clone());
            }
        }
        "C10" => {
            lru = *rng.pick(&[1usize, 2, 7, 64, 4096, 100_000]);
            let (kind, s) = choose_start(
                &mut rng,
                &[(StartKind::Initial, 3), (StartKind::Suite, 4), (StartKind::Special, 3), (StartKind::Random, 3), (StartKind::Endgame, 1), (StartKind::Terminal, 2), (StartKind::SingleReply, 1)],
            );
            start = if rng.chance(1, 8) { crate::gen::random_setup(&mut rng, 2) } else { s };
            scenario = "count-positions";
            let crowded = start.piece_count() > 16;
            let sparse = start.piece_count() <= 7;
            let bare = start.piece_count() <= 4;
            // real rayon pool size for this run's counts (1 = the harness's global one-thread pool)
            knobs.insert("pool".into(), *rng.pick(&[1i64, 1, 2, 3, 4, 5, 6, 7, 8, 9, 12, 16]));
            knobs.insert("node_budget".into(), if thorough { 12_000_000 } else { 1_500_000 });
            let maxd: usize = match (thorough, crowded, sparse) {
                (false, _, true) if bare => 5,
                (true, _, true) if bare => 6,
                (false, _, true) => 4,
                (true, _, true) => 5,
                (false, true, _) => 2,
                (false, false, _) => 3,
                (true, true, _) => 3,
                (true, false, _) => 4,
            };
            let _ = kind;
            // a used generator: walk a little, count at several depths (the CLI driver's reuse pattern)
            let n = rng.range(2, 5);
            let mut pos = start.clone();
            let mut stack = vec![pos.clone()];
            if mix(seed, index, 0x4c43) % 12 == 0 {
                // counting late in a long game: a hundred quiet plies behind the position
                for _ in 0..rng.range(98, 106) {
                    let legal = pos.legal_moves();
                    if legal.is_empty() {
                        break;
                    }
                    let k = choose_move(&mut rng, &pos, &legal, Policy::Frozen, None);
                    ops.push(Op::Make(k as u32));
                    pos = pos.make(&legal[k]);
                    stack.push(pos.clone());
                }
            }
            for _ in 0..n {
                let d = rng.range(0, maxd) as u8;
                ops.push(Op::Perft(d, rng.below(2) as u8));
                let legal = pos.legal_moves();
                if legal.is_empty() {
                    break;
                }
                if stack.len() > 1 && rng.chance(1, 4) {
                    ops.push(Op::Undo);
                    stack.pop();
                    pos = stack.last().unwrap().clone();
                } else {
                    let pol = if rng.chance(1, 2) { Policy::Hunt } else { Policy::Spicy };
                    let k = choose_move(&mut rng, &pos, &legal, pol, None);
                    ops.push(Op::Make(k as u32));
                    pos = pos.make(&legal[k]);
                    stack.push(pos.clone());
                }
            }
            ops.push(Op::Perft(rng.range(1, maxd) as u8, 1));
        }
        other => panic!("no search scenario for {}", other),
    }
    Plan {
        property: property.to_string(),
        scenario: scenario.to_string(),
        seed,
        index,
        start_fen: start.to_fen(),
        lru,
        register: false,
        knobs,
        ops,
        schedule: String::new(),
    }
}

// ------------------------------------------------------------------- execution

pub fn exec(plan: &Plan) -> Outcome {
    let prop = plan.property.as_str();
    let mut out = Outcome::default();
    let mut stats = Stats::default();
    let mut digest = Digest::new();
    let mut evals = 0u64;
    chess::verif_hooks::set_lru_capacity(plan.lru);
    let start = match Pos::from_fen(&plan.start_fen) {
        Some(mut p) => {
            p.plies = 0;
            p
        }
        None => {
            out.desync = Some("bad-start-fen".into());
            return out;
        }
    };
    set_phase("setup");
    let table = if prop == "C08" { Some(read_mate_table()) } else { None };
    if let Some(t) = &table {
        evals += 1;
        // the statement spells these out: quicker mate preferred, stalemate zero
        let mut bad = None;
        for d in 0..8 {
            if !(t.mated[0][d + 1] < t.mated[0][d]) || !(t.mated[1][d + 1] > t.mated[1][d]) {
                bad = Some(format!("mate scores at remaining depth {} and {}: white mated {} / {}, black mated {} / {}", d, d + 1, t.mated[0][d], t.mated[0][d + 1], t.mated[1][d], t.mated[1][d + 1]));
            }
        }
        if t.stalemate != 0 {
            bad = Some(format!("stalemate scored {}", t.stalemate));
        }
        if let Some(detail) = bad {
            out.violation = Some(Violation {
                class: "C08/leaf-scores/mate-or-stalemate-convention".into(),
                detail,
                at_op: 0,
            });
            out.stats = stats;
            return out;
        }
    }

    let via_game = plan.knob("via_game", 0) == 1;
    let reuse = plan.knob("reuse", 0) == 1;
    let run_depth = plan.knob("depth", 2) as u8;
    // history board (halfmove clock of a from-scratch board is 0; the model follows that)
    let mut model: Vec<Pos> = vec![{
        let mut p = start.clone();
        p.half = 0;
        p
    }];
    let mut board: Board = build_board(&model[0], None);
    let mut game: Option<Game> = if via_game {
        Some(Game::from_board(build_board(&model[0], None), if prop == "C08" { run_depth } else { plan.knob("game_depth", 1) as u8 }))
    } else {
        None
    };
    let mut gen = MoveGenerator::new();
    let mut ctx = SearchContext::new(run_depth);
    let mut applied: Vec<ChessMove> = Vec::new();
    if plan.register && game.is_none() {
        board.count_current_position();
    }

    for (i, op) in plan.ops.iter().enumerate() {
        let cur = model.last().unwrap().clone();
        if cur.fingerprint() % 64 == 0 {
            out.state_sample.push(cur.fingerprint());
        }
        match op {
            Op::Make(k) => {
                let legal = cur.legal_moves();
                if legal.is_empty() {
                    continue;
                }
                let m = legal[*k as usize % legal.len()];
                let em = to_engine_move(&m, cur.stm);
                set_phase("make");
                let target: &mut Board = match game.as_mut() {
                    Some(g) => g.board_mut(),
                    None => &mut board,
                };
                if em.apply(target).is_err() {
                    out.desync = Some(format!("apply-failed {}", m.uci()));
                    break;
                }
                target.toggle_turn();
                let next = cur.make(&m);
                if !same_position(target, &next) {
                    out.desync = Some(format!("successor-differs after {}", m.uci()));
                    break;
                }
                stats.bump("op-make");
                if plan.register && game.is_none() {
                    let c = board.count_current_position();
                    if c >= 3 {
                        stats.bump("probe/search-after-third-registered-occurrence");
                    }
                }
                if next.half >= 100 {
                    stats.bump("probe/search-history-with-halfmove-100-or-more");
                }
                applied.push(em);
                model.push(next);
            }
            Op::Undo => {
                let em = match applied.pop() {
                    Some(x) => x,
                    None => continue,
                };
                model.pop();
                set_phase("undo");
                if plan.register && game.is_none() {
                    board.uncount_current_position();
                }
                let target: &mut Board = match game.as_mut() {
                    Some(g) => g.board_mut(),
                    None => &mut board,
                };
                target.toggle_turn();
                if em.undo(target).is_err() {
                    out.desync = Some("undo-failed".into());
                    break;
                }
                stats.bump("op-undo");
                stats.bump("fault/rollback");
            }
            Op::Search(d) => {
                set_phase("search");
                stats.bump("op-search");
                stats.bump(&format!("search-depth/{}", d));
                let legal = cur.legal_moves();
                let in_check = cur.in_check(cur.stm);
                if legal.is_empty() {
                    stats.bump(if in_check { "probe/search-on-checkmated-position" } else { "probe/search-on-stalemated-position" });
                } else if legal.len() == 1 {
                    stats.bump("probe/search-with-single-legal-move");
                } else if in_check {
                    stats.bump("probe/search-in-check");
                }
                if prop == "C07" {
                    let (before, result, after): (Snapshot, Result<ChessMove, String>, Snapshot) = match game.as_mut() {
                        Some(g) => {
                            // the game's context has the game's fixed depth
                            let before = snapshot(g.board());
                            let r = g.select_alpha_beta_best_move().map_err(|e| match e {
                                GameError::SearchError { error: SearchError::NoAvailableMoves } => "NoAvailableMoves".to_string(),
                                GameError::SearchError { error: SearchError::DepthTooLow } => "DepthTooLow".to_string(),
                                other => format!("{:?}", other),
                            });
                            stats.add("positions-searched-by-the-game-context", g.searched_position_count() as u64);
                            if plan.scenario == "context-soak" && stats.counters.get("positions-searched-by-the-game-context").copied().unwrap_or(0) >= 1 << 19 && !stats.counters.contains_key("probe/one-context-searched-half-a-million-positions") {
                                stats.bump("probe/one-context-searched-half-a-million-positions");
                            }
                            (before, r, snapshot(g.board()))
                        }
                        None => {
                            let before = snapshot(&board);
                            let mut c = SearchContext::new(*d);
                            let r = alpha_beta_search(&mut c, &mut board, &mut gen).map_err(|e| match e {
                                SearchError::NoAvailableMoves => "NoAvailableMoves".to_string(),
                                SearchError::DepthTooLow => "DepthTooLow".to_string(),
                            });
                            (before, r, snapshot(&board))
                        }
                    };
                    let depth_used = if via_game { plan.knob("game_depth", 1) as u8 } else { *d };
                    evals += 2;
                    digest.eat(result.as_ref().map_or(0, |m| key_of_engine(m).1 as u64 * 64 + key_of_engine(m).2 as u64 + 1));
                    let mut verdict: Option<(String, String)> = None;
                    if depth_used == 0 {
                        stats.bump("probe/search-at-depth-0");
                        if result.as_ref().err().map(|s| s.as_str()) != Some("DepthTooLow") {
                            verdict = Some(("C07/depth-0-not-reported-as-too-low".into(), format!("depth 0 search returned {:?} in {}", result, cur.to_fen())));
                        }
                    } else if legal.is_empty() {
                        if result.as_ref().err().map(|s| s.as_str()) != Some("NoAvailableMoves") {
                            verdict = Some((
                                format!("C07/no-legal-move-not-reported/{}", if in_check { "checkmated" } else { "stalemated" }),
                                format!("search returned {:?} in {}", result, cur.to_fen()),
                            ));
                        }
                    } else {
                        match &result {
                            Ok(m) => {
                                let k = key_of_engine(m);
                                if !legal.iter().any(|l| key_of_model(l) == k) {
                                    verdict = Some(("C07/returned-move-is-not-legal".into(), format!("search returned {:?} in {} (depth {})", k, cur.to_fen(), depth_used)));
                                }
                            }
                            Err(e) => {
                                verdict = Some(("C07/error-although-a-legal-move-exists".into(), format!("search returned Err({}) in {} (depth {})", e, cur.to_fen(), depth_used)));
                            }
                        }
                    }
                    if verdict.is_none() {
                        if let Some(field) = snapshot_diff(&before, &after) {
                            verdict = Some((format!("C07/search-leaves-board-changed/{}", field), format!("{} differs after a depth-{} search in {}", field, depth_used, cur.to_fen())));
                        }
                    }
                    if let Some((class, detail)) = verdict {
                        out.violation = Some(Violation { class, detail, at_op: i });
                        break;
                    }
                } else if prop == "C08" {
                    if *d == 0 {
                        continue;
                    }
                    let t = table.as_ref().unwrap();
                    // the leaf evaluation itself, at this position and at every successor: mate scores
                    // (by remaining depth), zero for stalemate, the static score otherwise
                    {
                        let mut probe_gen = MoveGenerator::new();
                        let mut probes: Vec<Pos> = vec![cur.clone()];
                        probes.extend(legal.iter().map(|m| cur.make(m)));
                        if cur.piece_count() <= 6 {
                            // sparse board: two plies, where stalemates and mates are common
                            let second: Vec<Pos> = probes[1..].iter().flat_map(|p| p.legal_moves().iter().map(|m| p.make(m)).collect::<Vec<_>>()).collect();
                            probes.extend(second);
                        }
                        let mut bad: Option<(String, String)> = None;
                        'probe: for p in probes.iter() {
                            if p.half >= 90 {
                                continue;
                            }
                            let terminal = !p.has_legal_move();
                            let checked = p.in_check(p.stm);
                            for rd in [0u8, *d] {
                                let mut b = build_board(p, None);
                                let got = evaluate::score(&mut b, &mut probe_gen, color(p.stm), rd);
                                let (want, kind) = if terminal && checked {
                                    (t.mated[if p.stm == Side::White { 0 } else { 1 }][rd as usize], "checkmate")
                                } else if terminal {
                                    stats.bump("probe/leaf-score-on-stalemate");
                                    (0, "stalemate")
                                } else {
                                    (leaf_value(p), "static")
                                };
                                evals += 1;
                                if got != want {
                                    bad = Some((
                                        format!("C08/leaf-score/{}-position-scored-wrongly/remaining-depth-{}", kind, if rd == 0 { "0" } else { "n" }),
                                        format!("{}: score(remaining depth {}) = {}, expected {} ({})", p.to_fen(), rd, got, want, kind),
                                    ));
                                    break 'probe;
                                }
                            }
                        }
                        if let Some((class, detail)) = bad {
                            out.violation = Some(Violation { class, detail, at_op: i });
                            break;
                        }
                    }
                    if legal.is_empty() {
                        continue;
                    }
                    let mut fresh_ctx;
                    let (depth_used, r, score): (u8, Result<ChessMove, String>, Option<i16>) = if let Some(g) = game.as_mut() {
                        stats.bump("fault/context-reused");
                        stats.bump("probe/search-through-the-game-wrapper");
                        let r = g.select_alpha_beta_best_move().map_err(|e| format!("{:?}", e));
                        (g.search_depth(), r, g.alpha_beta_score())
                    } else {
                        let c: &mut SearchContext = if reuse {
                            stats.bump("fault/context-reused");
                            &mut ctx
                        } else {
                            fresh_ctx = SearchContext::new(*d);
                            &mut fresh_ctx
                        };
                        let depth_used = c.search_depth();
                        let r = alpha_beta_search(c, &mut board, &mut gen).map_err(|e| format!("{:?}", e));
                        if c.cache_hit_count() > 0 {
                            stats.bump("probe/result-cache-hit-served");
                        }
                        (depth_used, r, c.last_score())
                    };
                    let em = match r {
                        Ok(m) => m,
                        Err(e) => {
                            out.desync = Some(format!("search-error {}", e));
                            break;
                        }
                    };
                    let mut nodes = 0u64;
                    let want = ref_minimax(&cur, depth_used, t, &mut nodes);
                    stats.add("reference-minimax-nodes", nodes);
                    evals += 2;
                    digest.eat(score.unwrap_or(0) as u64);
                    let k = key_of_engine(&em);
                    let mm: Option<&Mv> = legal.iter().find(|l| key_of_model(l) == k);
                    let tag = format!("{}-context/depth-{}", if reuse { "reused" } else { "fresh" }, depth_used);
                    if score != Some(want) {
                        out.violation = Some(Violation {
                            class: format!("C08/score-differs-from-minimax/{}", tag),
                            detail: format!("{}: search score {:?}, exact depth-{} minimax {}", cur.to_fen(), score, depth_used, want),
                            at_op: i,
                        });
                        break;
                    }
                    match mm {
                        None => {
                            out.violation = Some(Violation {
                                class: format!("C08/returned-move-is-not-a-legal-move/{}", tag),
                                detail: format!("{}: the search returned {:?}, which is not a legal move of the position", cur.to_fen(), k),
                                at_op: i,
                            });
                            break;
                        }
                        Some(m) => {
                            let after = ref_minimax(&cur.make(m), depth_used - 1, t, &mut nodes);
                            if after != want {
                                out.violation = Some(Violation {
                                    class: format!("C08/returned-move-does-not-attain-value/{}", tag),
                                    detail: format!("{}: returned {} is worth {}, minimax value {}", cur.to_fen(), m.uci(), after, want),
                                    at_op: i,
                                });
                                break;
                            }
                        }
                    }
                }
            }
            Op::Perft(d, which) => {
                set_phase("perft");
                stats.bump("op-perft");
                stats.bump(&format!("perft-depth/{}", d));
                match cur.legal_moves().len() {
                    0 => stats.bump("probe/count-on-terminal-position"),
                    1 => stats.bump("probe/count-on-single-reply-position"),
                    _ => {}
                }
                if cur.in_check(cur.stm) {
                    stats.bump("probe/count-on-position-in-check");
                }
                // bounded cost: the depth is lowered until the reference count fits the node budget
                let budget: u64 = plan.knob("node_budget", 1_500_000) as u64;
                let mut want: u64 = 0;
                let mut d_eff: u8 = 0;
                for k in 1..=(*d as u32 + 1) {
                    let level = cur.perft(k);
                    if k > 1 && want + level > budget {
                        stats.bump("count-depth-lowered-to-fit-node-budget");
                        break;
                    }
                    want += level;
                    d_eff = (k - 1) as u8;
                    // the next level is roughly `level * branching`; stop early if it cannot fit
                    if k <= *d as u32 && level.saturating_mul(level / cur.perft(k - 1).max(1)) > budget * 4 {
                        stats.bump("count-depth-lowered-to-fit-node-budget");
                        break;
                    }
                }
                let d = &d_eff;
                stats.add("reference-perft-leaves", want);
                let pool_size = plan.knob("pool", 1) as usize;
                let mut count = |board: &mut Board, gen: &mut MoveGenerator| -> u64 {
                    if *which == 1 {
                        gen.count_positions(*d, board, color(cur.stm)) as u64
                    } else {
                        MoveGenerator::new().count_positions(*d, board, color(cur.stm)) as u64
                    }
                };
                if *which == 1 {
                    stats.bump("fault/generator-reused");
                }
                let got = if pool_size > 1 {
                    // a real rayon pool of the given size: the count must not depend on it
                    stats.bump(&format!("fault/rayon-pool-size/{}", pool_size));
                    match rayon::ThreadPoolBuilder::new().num_threads(pool_size).stack_size(64 << 20).build() {
                        Ok(pool) => pool.install(|| count(&mut board, &mut gen)),
                        Err(_) => count(&mut board, &mut gen),
                    }
                } else {
                    count(&mut board, &mut gen)
                };
                evals += 1;
                digest.eat(got);
                if prop == "C10" && got != want {
                    out.violation = Some(Violation {
                        class: format!("C10/count-differs-from-reference/{}-generator/{}", if *which == 1 { "used" } else { "fresh" }, if got > want { "too-many" } else { "too-few" }),
                        detail: format!("{}: count_positions({}) = {}, reference {} (lru capacity {}, rayon pool size {})", cur.to_fen(), d, got, want, plan.lru, pool_size),
                        at_op: i,
                    });
                    break;
                }
            }
            _ => {}
        }
    }
    stats.add("steps", plan.ops.len() as u64);
    out.stats = stats;
    out.digest = digest.0;
    out.oracle_evals = evals;
    out
}
