//! Game-level scenarios (build A): a `Game` driven exactly as the interactive
//! loops drive it (the caller toggles the turn), fed by a simulated command
//! stream (C14: canonical, corrupted, duplicated, stale and garbage messages),
//! asked for engine moves with the run-time random choice owned by the
//! simulator (C15), talking to a simulated UCI peer (C19), and played through
//! shuffling games (C17, end-to-end repetition draw).

use std::collections::{BTreeSet, HashMap};
use std::sync::atomic::{AtomicUsize, Ordering};

use chess::book::{Book, BookMove};
use chess::chess_move::chess_move::ChessMove;
use chess::evaluate::GameEnding;
use chess::game::command::{Command, MakeMove};
use chess::game::game::Game;
use chess::game::stockfish_elo::verif_create_chess_move_from_uci;

use crate::eng::*;
use crate::gen::{choose_move, choose_move_seen, choose_start, random_setup, Policy, Seen, StartKind};
use crate::model::{parse_sq, san, san_lenient_matches, sq_name, Mv, Pos, Side, P};
use crate::plan::{Op, Outcome, Plan, Stats, Violation};
use crate::prng::{mix, Digest, Rng};
use crate::{set_phase, Tier};

/// The write end of the pipe that has replaced this process's standard input (0 = not installed).
static STDIN_PIPE_WR: AtomicUsize = AtomicUsize::new(0);

/// Delivers one line to the engine's real stdin reader (`input_handler::parse_player_move_input`,
/// which classifies the line with its two patterns before it reaches the game): fd 0 of this
/// process is replaced, once, by the read end of a pipe the simulator writes to.
fn through_real_stdin(line: &str) -> Result<Box<dyn Command>, String> {
    if STDIN_PIPE_WR.load(Ordering::SeqCst) == 0 {
        let mut fds = [0i32; 2];
        // SAFETY: plain POSIX calls on descriptors this process owns
        unsafe {
            if libc::pipe(fds.as_mut_ptr()) != 0 || libc::dup2(fds[0], 0) < 0 {
                return Err("cannot install the stdin pipe".into());
            }
            libc::close(fds[0]);
        }
        STDIN_PIPE_WR.store(fds[1] as usize, Ordering::SeqCst);
    }
    let fd = STDIN_PIPE_WR.load(Ordering::SeqCst) as i32;
    let mut data = line.as_bytes().to_vec();
    data.push(b'\n');
    // SAFETY: writing a short line (far below the pipe capacity) to our own pipe
    let n = unsafe { libc::write(fd, data.as_ptr() as *const libc::c_void, data.len()) };
    if n != data.len() as isize {
        return Err("short write to the stdin pipe".into());
    }
    chess::input_handler::parse_player_move_input().map_err(|e| format!("{}", e))
}

static FORCED_CHOICE: AtomicUsize = AtomicUsize::new(usize::MAX);
static CHOICES_FORCED: AtomicUsize = AtomicUsize::new(0);

fn chooser(len: usize) -> Option<usize> {
    let f = FORCED_CHOICE.load(Ordering::SeqCst);
    if f == usize::MAX {
        None
    } else {
        CHOICES_FORCED.fetch_add(1, Ordering::SeqCst);
        Some(f % len.max(1))
    }
}

// ------------------------------------------------------------------ generation

fn corrupt(rng: &mut Rng, label: &str) -> String {
    let mut s: Vec<char> = label.chars().collect();
    match rng.below(9) {
        0 => {
            // drop or add the capture mark
            if let Some(i) = s.iter().position(|c| *c == 'x') {
                s.remove(i);
            } else if s.len() >= 2 {
                let at = s.len().saturating_sub(2 + s.iter().rev().take_while(|c| "+#".contains(**c)).count());
                s.insert(at.min(s.len()), 'x');
            }
        }
        1 => {
            // change / drop the suffix
            if matches!(s.last(), Some('+') | Some('#')) {
                let last = s.pop().unwrap();
                if rng.chance(1, 2) {
                    s.push(if last == '+' { '#' } else { '+' });
                }
            } else {
                s.push(if rng.chance(1, 2) { '+' } else { '#' });
            }
        }
        2 => {
            // extra / wrong disambiguation
            if !s.is_empty() && "NBRQK".contains(s[0]) {
                let c = if rng.chance(1, 2) { (b'a' + rng.below(8) as u8) as char } else { (b'1' + rng.below(8) as u8) as char };
                s.insert(1, c);
            }
        }
        3 => {
            // remove a disambiguation character
            if s.len() >= 4 && "NBRQK".contains(s[0]) {
                s.remove(1);
            }
        }
        4 => {
            // wrong promotion piece / add promotion
            if let Some(i) = s.iter().position(|c| *c == '=') {
                if i + 1 < s.len() {
                    s[i + 1] = *rng.pick(&['Q', 'R', 'B', 'N', 'K']);
                }
            } else {
                s.push('=');
                s.push('Q');
            }
        }
        5 => {
            // wrong piece letter
            if !s.is_empty() && "NBRQK".contains(s[0]) {
                s[0] = *rng.pick(&['N', 'B', 'R', 'Q', 'K']);
            } else {
                s.insert(0, *rng.pick(&['N', 'B', 'R', 'Q', 'K']));
            }
        }
        6 => {
            // shift the destination
            if let Some(i) = s.iter().rposition(|c| ('a'..='h').contains(c)) {
                s[i] = (b'a' + rng.below(8) as u8) as char;
            }
        }
        7 => {
            // case change
            for c in s.iter_mut() {
                if rng.chance(1, 2) {
                    *c = if c.is_ascii_uppercase() { c.to_ascii_lowercase() } else { c.to_ascii_uppercase() };
                }
            }
        }
        _ => {
            // castling look-alikes
            return rng.pick(&["O-O", "O-O-O", "0-0", "O-O+", "O-O-O#", "o-o"]).to_string();
        }
    }
    s.into_iter().collect()
}

fn garbage(rng: &mut Rng) -> String {
    let alphabet: Vec<char> = "abcdefgh12345678NBRQKxO-=+# ".chars().collect();
    let n = rng.range(0, 7);
    (0..n).map(|_| *rng.pick(&alphabet)).collect()
}

pub fn gen_plan(property: &str, seed: u64, index: u64, tier: Tier) -> Plan {
    let mut rng = Rng::new(mix(seed, index, 0x4741));
    let thorough = tier == Tier::Thorough;
    let mut knobs = std::collections::BTreeMap::new();
    let mut ops: Vec<Op> = Vec::new();
    let scenario: &str;
    let start: Pos;
    match property {
        "C14" => {
            let (_, s) = choose_start(&mut rng, &[(StartKind::Initial, 3), (StartKind::Special, 4), (StartKind::Suite, 2), (StartKind::Random, 3)]);
            start = s;
            scenario = "command-stream";
            // a tenth of the streams belong to a long game: a hundred quiet plies first (typed input is
            // legal or not whatever the clocks say), then the usual mix
            let late = mix(seed, index, 0x4c54) % 10 == 0;
            let len = if late { rng.range(104, 125) } else { rng.range(10, if thorough { 80 } else { 40 }) };
            let policy = *rng.pick(&[Policy::Spicy, Policy::Hunt, Policy::Uniform, Policy::Lookalike]);
            let mut seen = Seen::default();
            let mut pos = start.clone();
            let mut prev_labels: Vec<String> = Vec::new();
            let mut plies = 0;
            while plies < len {
                let legal = pos.legal_moves();
                if legal.is_empty() {
                    break;
                }
                let labels: Vec<String> = legal.iter().map(|m| san(&pos, m, &legal)).collect();
                // a burst of faulted messages before the accepted one
                let quiet_phase = late && plies < 100;
                let burst = if quiet_phase { 0 } else if rng.chance(2, 3) { rng.range(1, 4) } else { 0 };
                for _ in 0..burst {
                    let text = match rng.below(11) {
                        0 | 1 => garbage(&mut rng),
                        10 => {
                            // a castling attempt, whatever the position allows
                            let home = if pos.stm == crate::model::Side::White { '1' } else { '8' };
                            match rng.below(4) {
                                0 => "O-O".to_string(),
                                1 => "O-O-O".to_string(),
                                2 => format!("e{}g{}", home, home),
                                _ => format!("e{}c{}", home, home),
                            }
                        }
                        2 | 3 | 4 => {
                            let l = labels[rng.below(labels.len())].clone();
                            corrupt(&mut rng, &l)
                        }
                        5 => {
                            // stale: legal one ply ago
                            if prev_labels.is_empty() { garbage(&mut rng) } else { rng.pick(&prev_labels).clone() }
                        }
                        6 => {
                            // legal for the other side
                            let other = pos.with_stm(pos.stm.other());
                            if other.in_check(pos.stm) {
                                garbage(&mut rng)
                            } else {
                                let ol = other.legal_moves();
                                if ol.is_empty() { garbage(&mut rng) } else { san(&other, rng.pick(&ol), &ol) }
                            }
                        }
                        7 => {
                            // coordinate pair, any of the 4096
                            ops.push(Op::Coord(rng.below(64) as u8, rng.below(64) as u8));
                            continue;
                        }
                        8 => {
                            // coordinate near-miss: right origin, wrong target
                            let m = rng.pick(&legal);
                            ops.push(Op::Coord(m.from, rng.below(64) as u8));
                            continue;
                        }
                        _ => {
                            // label without its suffix / over-disambiguated
                            let m = rng.pick(&legal);
                            let l = san(&pos, m, &legal);
                            if m.piece != P::Pawn && m.castle.is_none() {
                                format!("{}{}{}", &l[..1], sq_name(m.from), &l[1..])
                            } else {
                                l.trim_end_matches(['+', '#']).to_string()
                            }
                        }
                    };
                    ops.push(Op::Typed(text));
                }
                // the accepted message: canonical label or coordinates of a policy-chosen move
                let k = choose_move_seen(&mut rng, &pos, &legal, if quiet_phase { Policy::Frozen } else { policy }, None, &mut seen);
                let m = legal[k];
                if rng.chance(1, 2) || (m.promo.is_some() && m.promo != Some(P::Queen)) {
                    ops.push(Op::Typed(labels[k].clone()));
                    if rng.chance(1, 5) {
                        // duplicate delivery of the same message
                        ops.push(Op::Typed(labels[k].clone()));
                    }
                } else {
                    ops.push(Op::Coord(m.from, m.to));
                    if rng.chance(1, 5) {
                        ops.push(Op::Coord(m.from, m.to));
                    }
                }
                // the model must follow what the engine is expected to play; promotions by
                // coordinates become queens
                let played = if matches!(ops.last(), Some(Op::Coord(_, _))) && m.promo.is_some() {
                    *legal.iter().find(|x| x.from == m.from && x.to == m.to && x.promo == Some(P::Queen)).unwrap()
                } else {
                    m
                };
                prev_labels = labels;
                pos = pos.make(&played);
                plies += 1;
            }
            if thorough && rng.chance(1, 4) {
                knobs.insert("all_pairs".into(), 1);
            }
            knobs.insert("via_stdin".into(), rng.chance(1, 2) as i64);
        }
        "C15" => {
            if index == 0 {
                scenario = "book-audit";
                start = Pos::startpos();
            } else {
                let mode = rng.below(10);
                let depth = rng.range(1, 2) as i64;
                knobs.insert("depth".into(), depth);
                if mode == 7 && rng.chance(1, 2) {
                    // "after any legal history": a hundred quiet plies and more, then the engine is asked
                    scenario = "long-quiet-history";
                    let (_, s) = choose_start(&mut rng, &[(StartKind::Endgame, 3), (StartKind::Initial, 1)]);
                    start = s;
                    let mut pos = start.clone();
                    for n in 0..rng.range(98, 112) {
                        let legal = pos.legal_moves();
                        if legal.is_empty() {
                            break;
                        }
                        let k = choose_move(&mut rng, &pos, &legal, Policy::Frozen, None);
                        ops.push(Op::Make(k as u32));
                        pos = pos.make(&legal[k]);
                        if n >= 96 {
                            ops.push(Op::EngineMove(1000));
                        }
                    }
                } else if mode == 9 || mode == 8 {
                    // ask (without playing the answer) at every position of a tempo-losing walk: the same
                    // placement comes back with the other side to move inside one game
                    scenario = "ask-along-lookalike-walk";
                    let (_, s) = choose_start(&mut rng, &[(StartKind::Endgame, 3), (StartKind::Random, 1)]);
                    start = s;
                    let mut pos = start.clone();
                    let mut seen = Seen::default();
                    for _ in 0..rng.range(8, if thorough { 24 } else { 14 }) {
                        ops.push(Op::EngineMove(1000 + rng.below(16) as u32));
                        let legal = pos.legal_moves();
                        if legal.is_empty() {
                            break;
                        }
                        let k = choose_move_seen(&mut rng, &pos, &legal, Policy::Lookalike, None, &mut seen);
                        ops.push(Op::Make(k as u32));
                        pos = pos.make(&legal[k]);
                    }
                    ops.push(Op::EngineMove(1000));
                } else if mode < 4 {
                    // follow the book for a while, leave it at a seeded ply, keep asking
                    scenario = "leave-book";
                    start = Pos::startpos();
                    let leave_at = rng.range(0, 8);
                    let total = rng.range(leave_at + 1, leave_at + if thorough { 8 } else { 4 });
                    for ply in 0..total {
                        if ply == leave_at {
                            ops.push(Op::Make(rng.below(64) as u32));
                        } else {
                            ops.push(Op::EngineMove(rng.below(16) as u32));
                        }
                    }
                } else if mode == 6 {
                    // supplied position in which the side to move is in check and still holds castling
                    // rights over empty squares: the engine must answer the check, never castle out of it
                    scenario = "supplied-position-in-check-with-castling-rights";
                    start = crate::gen::castle_temptation(&mut rng);
                    knobs.insert("depth".into(), rng.range(1, 3) as i64);
                    for _ in 0..rng.range(1, 3) {
                        ops.push(Op::EngineMove(rng.below(16) as u32));
                    }
                } else if mode < 7 {
                    // supplied position that shares from/to squares with book prefixes
                    scenario = "supplied-position-book-lookalike";
                    let mut p = Pos::startpos();
                    // perturb: remove / move a few pieces so that some book moves are not playable
                    for _ in 0..rng.range(1, 6) {
                        let s = rng.below(64);
                        if let Some((pc, _)) = p.sq[s] {
                            if pc != P::King {
                                p.sq[s] = None;
                            }
                        }
                    }
                    // ... and drop a few enemy pieces into the middle of the board, so that a book move can
                    // also be blocked, pinned, or illegal because the king is in check
                    for _ in 0..rng.range(0, 3) {
                        let s = rng.range(16, 47);
                        if p.sq[s].is_none() {
                            let piece = *rng.pick(&[P::Knight, P::Bishop, P::Rook, P::Queen, P::Pawn]);
                            p.sq[s] = Some((piece, if rng.chance(3, 4) { Side::Black } else { Side::White }));
                        }
                    }
                    p.rights = 0;
                    if rng.chance(1, 3) {
                        p.stm = Side::Black;
                    }
                    if !p.is_consistent() {
                        p = Pos::startpos();
                        p.sq[12] = None; // no e-pawn: e2e4 unplayable
                    }
                    start = p;
                    for _ in 0..rng.range(1, 5) {
                        ops.push(Op::EngineMove(rng.below(16) as u32));
                    }
                } else {
                    scenario = "supplied-position-random";
                    let max_extra = *rng.pick(&[2usize, 4, 8, 12]);
                    start = random_setup(&mut rng, max_extra);
                    for _ in 0..rng.range(1, 4) {
                        if rng.chance(1, 4) {
                            ops.push(Op::Make(rng.below(64) as u32));
                        } else {
                            ops.push(Op::EngineMove(rng.below(16) as u32));
                        }
                    }
                }
            }
        }
        "C19" => {
            let (_, s) = choose_start(&mut rng, &[(StartKind::Initial, 4), (StartKind::Special, 4), (StartKind::Suite, 2), (StartKind::Random, 2)]);
            start = s;
            scenario = "uci-bridge";
            let len = rng.range(8, if thorough { 80 } else { 40 });
            let mut pos = start.clone();
            for _ in 0..len {
                let legal = pos.legal_moves();
                if legal.is_empty() {
                    break;
                }
                let k = choose_move(&mut rng, &pos, &legal, Policy::Spicy, None);
                ops.push(Op::PeerMove(k as u32));
                pos = pos.make(&legal[k]);
            }
        }
        "C16" => {
            // whole games through the Game API as the loops drive it: the move-count draw must be
            // reported exactly from clock 100 on, also in positions the game has already checked before
            scenario = "game-loop-move-count";
            let (_, s) = choose_start(&mut rng, &[(StartKind::Endgame, 3), (StartKind::Initial, 2), (StartKind::Special, 1)]);
            start = s;
            let len = rng.range(104, if thorough { 220 } else { 130 });
            if rng.chance(1, 2) {
                knobs.insert("rewrap_at".to_string(), rng.range(1, 100) as i64);
            }
            let mut pos = start.clone();
            let mut own: [Option<Mv>; 2] = [None, None];
            let policy = if rng.chance(1, 2) { Policy::Shuffle } else { Policy::Frozen };
            for _ in 0..len {
                let legal = pos.legal_moves();
                if legal.is_empty() {
                    break;
                }
                let side = pos.stm as usize;
                let quiet: Vec<usize> = (0..legal.len()).filter(|&i| legal[i].piece != P::Pawn && legal[i].capture.is_none()).collect();
                let mut k = choose_move(&mut rng, &pos, &legal, policy, own[side].as_ref());
                if (legal[k].piece == P::Pawn || legal[k].capture.is_some()) && !quiet.is_empty() {
                    k = *rng.pick(&quiet);
                }
                ops.push(Op::Make(k as u32));
                own[side] = Some(legal[k]);
                pos = pos.make(&legal[k]);
            }
        }
        "C17" => {
            scenario = "game-loop";
            let (_, s) = choose_start(&mut rng, &[(StartKind::Initial, 3), (StartKind::Special, 2), (StartKind::Endgame, 3)]);
            start = s;
            let len = rng.range(10, if thorough { 60 } else { 30 });
            let mut pos = start.clone();
            let mut own: [Option<Mv>; 2] = [None, None];
            for _ in 0..len {
                let legal = pos.legal_moves();
                if legal.is_empty() {
                    break;
                }
                let side = pos.stm as usize;
                let k = choose_move(&mut rng, &pos, &legal, Policy::Shuffle, own[side].as_ref());
                ops.push(Op::Make(k as u32));
                own[side] = Some(legal[k]);
                pos = pos.make(&legal[k]);
            }
        }
        other => panic!("no game scenario for {}", other),
    }
    Plan {
        property: property.to_string(),
        scenario: scenario.to_string(),
        seed,
        index,
        start_fen: start.to_fen(),
        lru: 4096,
        register: false,
        knobs,
        ops,
        schedule: String::new(),
    }
}

// ------------------------------------------------------------------- execution

fn book_line(history: &[Mv]) -> Vec<BookMove> {
    history.iter().map(|m| BookMove::new(bb(m.from), bb(m.to))).collect()
}

fn repo_path() -> String {
    std::env::var("VERIF_REPO").unwrap_or_else(|_| "/repo".to_string())
}

/// Whole-trie audit: every node of the compiled book replayed on the model, the
/// engine asked once per continuation with the random choice forced, and the
/// compiled set of lines compared with an independent parse of the book source.
fn book_audit(out: &mut Outcome, stats: &mut Stats, evals: &mut u64) {
    let book = Book::default();
    // 1. independent parse of the source file
    let path = format!("{}/opening_lines.txt", repo_path());
    let text = match std::fs::read_to_string(&path) {
        Ok(t) => t,
        Err(e) => {
            out.desync = Some(format!("cannot read {}: {}", path, e));
            return;
        }
    };
    let mut source_prefixes: BTreeSet<Vec<(u8, u8)>> = BTreeSet::new();
    for (ln, line) in text.lines().enumerate() {
        let parts: Vec<&str> = line.split(": ").collect();
        if parts.len() != 2 {
            continue;
        }
        stats.bump("book/source-lines");
        let mut pos = Pos::startpos();
        let mut prefix: Vec<(u8, u8)> = Vec::new();
        for (n, tok) in parts[1].split(' ').enumerate() {
            *evals += 1;
            let (f, t) = match (tok.get(0..2).and_then(parse_sq), tok.get(2..4).and_then(parse_sq)) {
                (Some(f), Some(t)) => (f, t),
                _ => {
                    out.violation = Some(Violation {
                        class: "C15/book-line-not-legal/unparsable-move".into(),
                        detail: format!("opening_lines.txt line {} ({}): move {} '{}' is not a coordinate pair", ln + 1, parts[0], n + 1, tok),
                        at_op: 0,
                    });
                    return;
                }
            };
            let legal = pos.legal_moves();
            match legal.iter().find(|m| m.from == f && m.to == t && (m.promo.is_none() || m.promo == Some(P::Queen))) {
                Some(m) => {
                    pos = pos.make(m);
                    prefix.push((f, t));
                    source_prefixes.insert(prefix.clone());
                }
                None => {
                    out.violation = Some(Violation {
                        class: "C15/book-line-not-legal/source".into(),
                        detail: format!("opening_lines.txt line {} ({}): move {} '{}' is not legal in {}", ln + 1, parts[0], n + 1, tok, pos.to_fen()),
                        at_op: 0,
                    });
                    return;
                }
            }
        }
    }
    // 2. walk the compiled trie
    let mut compiled_prefixes: BTreeSet<Vec<(u8, u8)>> = BTreeSet::new();
    let mut stack: Vec<(Vec<Mv>, Pos)> = vec![(Vec::new(), Pos::startpos())];
    while let Some((hist, pos)) = stack.pop() {
        let next = book.get_next_moves(book_line(&hist));
        stats.bump("book/trie-nodes");
        if next.is_empty() {
            continue;
        }
        let legal = pos.legal_moves();
        for (j, (bm, _name)) in next.iter().enumerate() {
            let (f, t) = (sq_of(bm.from_square()), sq_of(bm.to_square()));
            *evals += 1;
            let m = match legal.iter().find(|m| m.from == f && m.to == t) {
                Some(m) => *m,
                None => {
                    out.violation = Some(Violation {
                        class: "C15/book-line-not-legal/compiled".into(),
                        detail: format!("compiled book: after {:?} the continuation {}{} is not legal in {}", hist.iter().map(|m| m.uci()).collect::<Vec<_>>(), sq_name(f), sq_name(t), pos.to_fen()),
                        at_op: 0,
                    });
                    return;
                }
            };
            // ask the engine at this node with the choice forced to j
            set_phase("engine-move");
            let mut game = Game::from_board(build_board(&Pos::startpos(), None), 1);
            let mut p = Pos::startpos();
            let mut ok = true;
            for hm in hist.iter() {
                if game.apply_chess_move(to_engine_move(hm, p.stm)).is_err() {
                    ok = false;
                    break;
                }
                game.board_mut().toggle_turn();
                p = p.make(hm);
            }
            if !ok {
                out.desync = Some("book-audit: could not bring a game to a trie node".into());
                return;
            }
            FORCED_CHOICE.store(j, Ordering::SeqCst);
            let r = game.select_waterfall_book_then_alpha_beta_best_move();
            FORCED_CHOICE.store(usize::MAX, Ordering::SeqCst);
            stats.bump("fault/book-choice-forced");
            *evals += 1;
            match r {
                Ok(em) => {
                    let k = key_of_engine(&em);
                    if !legal.iter().any(|l| key_of_model(l) == k) {
                        out.violation = Some(Violation {
                            class: "C15/engine-move-not-legal/in-book".into(),
                            detail: format!("at book node {:?} choice {}: engine proposed {:?}, not legal in {}", hist.iter().map(|m| m.uci()).collect::<Vec<_>>(), j, k, pos.to_fen()),
                            at_op: 0,
                        });
                        return;
                    }
                    if (k.1, k.2) == (f, t) {
                        stats.bump("probe/book-move-served");
                    }
                }
                Err(e) => {
                    out.violation = Some(Violation {
                        class: "C15/engine-returns-error-although-legal-move-exists/in-book".into(),
                        detail: format!("at book node {:?} choice {} ({}{}): {:?}", hist.iter().map(|m| m.uci()).collect::<Vec<_>>(), j, sq_name(f), sq_name(t), e),
                        at_op: 0,
                    });
                    return;
                }
            }
            let mut h2 = hist.clone();
            h2.push(m);
            compiled_prefixes.insert(h2.iter().map(|m| (m.from, m.to)).collect());
            stack.push((h2, pos.make(&m)));
        }
    }
    *evals += 1;
    if compiled_prefixes != source_prefixes {
        let only_source = source_prefixes.difference(&compiled_prefixes).next().cloned();
        let only_compiled = compiled_prefixes.difference(&source_prefixes).next().cloned();
        let show = |p: Option<Vec<(u8, u8)>>| p.map(|v| v.iter().map(|(f, t)| format!("{}{}", sq_name(*f), sq_name(*t))).collect::<Vec<_>>().join(" "));
        out.violation = Some(Violation {
            class: "C15/compiled-book-differs-from-book-source".into(),
            detail: format!("only in opening_lines.txt: {:?}; only in the compiled book: {:?}", show(only_source), show(only_compiled)),
            at_op: 0,
        });
    }
}

pub fn exec(plan: &Plan) -> Outcome {
    let prop = plan.property.as_str();
    let mut out = Outcome::default();
    let mut stats = Stats::default();
    let mut digest = Digest::new();
    let mut evals = 0u64;
    chess::verif_hooks::set_lru_capacity(plan.lru);
    chess::verif_hooks::set_chooser(Some(chooser));
    FORCED_CHOICE.store(usize::MAX, Ordering::SeqCst);

    if plan.scenario == "book-audit" {
        book_audit(&mut out, &mut stats, &mut evals);
        out.stats = stats;
        out.oracle_evals = evals;
        return out;
    }

    let start = match Pos::from_fen(&plan.start_fen) {
        Some(mut p) => {
            p.half = 0;
            p.plies = 0;
            p
        }
        None => {
            out.desync = Some("bad-start-fen".into());
            return out;
        }
    };
    set_phase("setup");
    let depth = plan.knob("depth", if prop == "C15" { 1 } else { 0 }) as u8;
    let mut game = Game::from_board(build_board(&start, None), depth);
    let mut pos = start.clone();
    let mut history: Vec<Mv> = Vec::new();
    let mut uci_history: Vec<String> = Vec::new();
    let mut multiset: HashMap<u64, u32> = HashMap::new();
    *multiset.entry(pos.fingerprint()).or_insert(0) += 1;
    let from_initial = start.to_fen() == Pos::startpos().to_fen();

    let rewrap_at = plan.knob("rewrap_at", 0) as usize;
    for (i, op) in plan.ops.iter().enumerate() {
        if pos.fingerprint() % 64 == 0 {
            out.state_sample.push(pos.fingerprint());
        }
        if rewrap_at > 0 && i == rewrap_at {
            // the history is split across objects: the board (with its counters and undo
            // history) lives on in a new Game whose own move list starts empty
            stats.bump("fault/game-object-replaced-mid-game");
            game = Game::from_board(game.board().clone(), depth);
        }
        let legal = pos.legal_moves();
        match op {
            Op::Typed(_) | Op::Coord(_, _) => {
                set_phase("typed");
                let before = snapshot(game.board());
                let last_before = game.last_move().map(|m| key_of_engine(&m));
                // classify with the model
                let (result, must_accept, must_reject, readings): (Result<ChessMove, String>, Option<Mv>, bool, Vec<Mv>) = match op {
                    Op::Typed(text) => {
                        stats.bump("op-typed");
                        let labels: Vec<String> = legal.iter().map(|m| san(&pos, m, &legal)).collect();
                        let mut exact: Vec<Mv> = legal.iter().zip(labels.iter()).filter(|(_, l)| *l == text).map(|(m, _)| *m).collect();
                        let mut readings: Vec<Mv> = legal.iter().filter(|m| san_lenient_matches(&pos, m, text)).copied().collect();
                        // through the stdin reader a text of the shape "e2e4" is a coordinate pair
                        let as_pair = if plan.knob("via_stdin", 0) == 1 && text.len() == 4 {
                            match (parse_sq(&text[0..2]), parse_sq(&text[2..4])) {
                                (Some(f), Some(t)) => Some((f, t)),
                                _ => None,
                            }
                        } else {
                            None
                        };
                        if let Some((f, t)) = as_pair {
                            let cands: Vec<Mv> = legal.iter().filter(|m| m.from == f && m.to == t).copied().collect();
                            exact = cands.iter().filter(|m| m.promo.is_none() || m.promo == Some(P::Queen)).copied().collect();
                            readings = exact.clone();
                        }
                        let must_accept = if exact.len() == 1 { Some(exact[0]) } else { None };
                        let must_reject = readings.is_empty() && exact.is_empty();
                        // half of the runs deliver the text through the engine's real stdin reader (its
                        // coordinate / notation patterns decide what reaches the game); a line the reader
                        // refuses is a rejection like any other
                        let printable = !text.is_empty() && text.chars().all(|c| c.is_ascii_graphic());
                        let r = if plan.knob("via_stdin", 0) == 1 && printable {
                            stats.bump("fault/delivered-through-real-stdin-reader");
                            match through_real_stdin(text) {
                                Ok(cmd) => cmd.execute(&mut game).map_err(|e| format!("{:?}", e)),
                                Err(e) => Err(e),
                            }
                        } else {
                            let cmd = MakeMove::Algebraic { algebraic: text.clone() };
                            cmd.execute(&mut game).map_err(|e| format!("{:?}", e))
                        };
                        (r, must_accept, must_reject, if exact.len() == 1 { exact } else { readings })
                    }
                    Op::Coord(f, t) => {
                        stats.bump("op-coord");
                        let cands: Vec<Mv> = legal.iter().filter(|m| m.from == *f && m.to == *t).copied().collect();
                        let chosen = cands.iter().find(|m| m.promo.is_none() || m.promo == Some(P::Queen)).copied();
                        let cmd = MakeMove::Coordinate { from_square: sq_name(*f), to_square: sq_name(*t) };
                        let r = cmd.execute(&mut game).map_err(|e| format!("{:?}", e));
                        (r, chosen, cands.is_empty(), chosen.into_iter().collect())
                    }
                    _ => unreachable!(),
                };
                evals += 1;
                let what = match op {
                    Op::Typed(t) => format!("'{}'", t),
                    Op::Coord(f, t) => format!("{}{}", sq_name(*f), sq_name(*t)),
                    _ => String::new(),
                };
                let kind = if matches!(op, Op::Typed(_)) { "notation" } else { "coordinates" };
                match result {
                    Ok(em) => {
                        stats.bump("typed-accepted");
                        if must_reject {
                            stats.bump("fault/illegal-command-delivered");
                            out.violation = Some(Violation {
                                class: format!("C14/illegal-input-accepted/{}", kind),
                                detail: format!("{} accepted in {} although it names no legal move (played {:?})", what, pos.to_fen(), key_of_engine(&em)),
                                at_op: i,
                            });
                            break;
                        }
                        let k = key_of_engine(&em);
                        let played = match readings.iter().find(|m| key_of_model(m) == k) {
                            Some(m) => *m,
                            None => {
                                out.violation = Some(Violation {
                                    class: format!("C14/accepted-input-played-a-different-move/{}", kind),
                                    detail: format!("{} in {}: played {:?}, which the text does not denote (expected one of {:?})", what, pos.to_fen(), k, readings.iter().map(|m| m.uci()).collect::<Vec<_>>()),
                                    at_op: i,
                                });
                                break;
                            }
                        };
                        if let Some(m) = must_accept {
                            if key_of_model(&m) != k {
                                out.violation = Some(Violation {
                                    class: format!("C14/accepted-input-played-a-different-move/{}", kind),
                                    detail: format!("{} in {}: played {:?} instead of {}", what, pos.to_fen(), k, m.uci()),
                                    at_op: i,
                                });
                                break;
                            }
                        }
                        let next = pos.make(&played);
                        game.board_mut().toggle_turn();
                        if !same_position(game.board(), &next) {
                            out.violation = Some(Violation {
                                class: format!("C14/accepted-input-wrong-position/{}", kind),
                                detail: format!("after {} in {} the board is {} (expected {})", what, pos.to_fen(), read_board(game.board()).to_fen(), next.to_fen()),
                                at_op: i,
                            });
                            break;
                        }
                        if game.last_move().map(|m| key_of_engine(&m)) != Some(k) {
                            out.violation = Some(Violation {
                                class: format!("C14/accepted-move-not-recorded-in-history/{}", kind),
                                detail: format!("after {} the game's last move is {:?}", what, game.last_move().map(|m| key_of_engine(&m))),
                                at_op: i,
                            });
                            break;
                        }
                        digest.eat(game.board().current_position_hash());
                        history.push(played);
                        pos = next;
                    }
                    Err(e) => {
                        stats.bump("typed-rejected");
                        if must_reject {
                            stats.bump("fault/illegal-command-delivered");
                        }
                        if let Some(m) = must_accept {
                            out.violation = Some(Violation {
                                class: format!(
                                    "C14/legal-input-rejected/{}/{}",
                                    kind,
                                    if m.castle.is_some() { "castle" } else if m.promo.is_some() { "promotion" } else if m.ep { "en-passant" } else { "standard" }
                                ),
                                detail: format!("{} rejected ({}) in {} although it is the canonical text of the legal move {}", what, e, pos.to_fen(), m.uci()),
                                at_op: i,
                            });
                            break;
                        }
                        let after = snapshot(game.board());
                        if let Some(field) = snapshot_diff(&before, &after) {
                            out.violation = Some(Violation {
                                class: format!("C14/rejected-input-changed-the-game/{}/{}", kind, field),
                                detail: format!("{} rejected in {} but {} changed", what, pos.to_fen(), field),
                                at_op: i,
                            });
                            break;
                        }
                        if game.last_move().map(|m| key_of_engine(&m)) != last_before {
                            out.violation = Some(Violation {
                                class: format!("C14/rejected-input-changed-the-game/{}/history", kind),
                                detail: format!("{} rejected in {} but the game history changed", what, pos.to_fen()),
                                at_op: i,
                            });
                            break;
                        }
                    }
                }
            }
            Op::Make(k) => {
                if legal.is_empty() {
                    continue;
                }
                let m = legal[*k as usize % legal.len()];
                if prop == "C16" {
                    set_phase("game-loop");
                    let over = game.check_game_over_for_current_turn();
                    evals += 1;
                    if pos.half >= 100 {
                        stats.bump("probe/game-loop-clock-100-or-more");
                    }
                    if multiset.get(&pos.fingerprint()).copied().unwrap_or(0) >= 2 {
                        stats.bump("probe/game-over-asked-in-a-revisited-position");
                    }
                    let is_draw = matches!(over, Some(GameEnding::Draw));
                    if is_draw != (pos.half >= 100) {
                        out.violation = Some(Violation {
                            class: format!("C16/game-api-move-count-draw/{}", if is_draw { "declared-early" } else { "not-declared-at-100" }),
                            detail: format!("{} after {:?}: {} plies since the last capture or pawn move but check_game_over_for_current_turn() = {:?}", pos.to_fen(), history.iter().map(|m| m.uci()).collect::<Vec<_>>().len(), pos.half, over),
                            at_op: i,
                        });
                        break;
                    }
                    let cmd = MakeMove::Coordinate { from_square: sq_name(m.from), to_square: sq_name(m.to) };
                    if cmd.execute(&mut game).is_err() {
                        out.desync = Some(format!("game-loop: legal coordinates {} rejected", m.uci()));
                        break;
                    }
                } else if prop == "C17" {
                    // exactly as player_vs_player drives the game
                    set_phase("game-loop");
                    let over = game.check_game_over_for_current_turn();
                    let mult = multiset[&pos.fingerprint()];
                    evals += 1;
                    if mult >= 3 {
                        stats.bump("probe/third-occurrence");
                        if !matches!(over, Some(GameEnding::Draw)) {
                            out.violation = Some(Violation {
                                class: "C17/game-api-third-occurrence-not-drawn".into(),
                                detail: format!("{} has occurred {} times in a game played through the Game API (history {:?}) but check_game_over_for_current_turn() = {:?}", pos.to_fen(), mult, history.iter().map(|m| m.uci()).collect::<Vec<_>>(), over),
                                at_op: i,
                            });
                            break;
                        }
                        break; // the game is over
                    } else if matches!(over, Some(GameEnding::Draw)) && pos.half < 100 {
                        out.violation = Some(Violation {
                            class: "C17/game-api-draw-without-third-occurrence".into(),
                            detail: format!("{} has occurred {} time(s) but the game was declared drawn", pos.to_fen(), mult),
                            at_op: i,
                        });
                        break;
                    }
                    let cmd = MakeMove::Coordinate { from_square: sq_name(m.from), to_square: sq_name(m.to) };
                    if cmd.execute(&mut game).is_err() {
                        out.desync = Some(format!("game-loop: legal coordinates {} rejected", m.uci()));
                        break;
                    }
                } else {
                    set_phase("make");
                    if game.apply_chess_move(to_engine_move(&m, pos.stm)).is_err() {
                        out.desync = Some(format!("apply-failed {}", m.uci()));
                        break;
                    }
                }
                game.board_mut().toggle_turn();
                let played = if (prop == "C17" || prop == "C16") && m.promo.is_some() {
                    *legal.iter().find(|x| x.from == m.from && x.to == m.to && x.promo == Some(P::Queen)).unwrap()
                } else {
                    m
                };
                pos = pos.make(&played);
                history.push(played);
                *multiset.entry(pos.fingerprint()).or_insert(0) += 1;
                if multiset[&pos.fingerprint()] >= 2 {
                    stats.bump("probe/true-recurrence");
                }
                if !same_position(game.board(), &pos) {
                    out.desync = Some("successor-differs".into());
                    break;
                }
                stats.bump("op-make");
            }
            Op::EngineMove(choice) => {
                set_phase("engine-move");
                stats.bump("op-engine-move");
                let book = Book::default();
                let cands = book.get_next_moves(book_line(&history));
                if !cands.is_empty() {
                    stats.bump("probe/history-matches-book");
                    if !from_initial {
                        stats.bump("probe/book-prefix-on-supplied-position");
                    }
                } else {
                    stats.bump("probe/off-book");
                }
                FORCED_CHOICE.store(*choice as usize, Ordering::SeqCst);
                let before = CHOICES_FORCED.load(Ordering::SeqCst);
                let r = game.select_waterfall_book_then_alpha_beta_best_move();
                FORCED_CHOICE.store(usize::MAX, Ordering::SeqCst);
                if CHOICES_FORCED.load(Ordering::SeqCst) > before {
                    stats.bump("fault/book-choice-forced");
                }
                evals += 1;
                if legal.is_empty() {
                    // nothing is required when the side to move has no legal move
                    break;
                }
                let where_ = if cands.is_empty() { "off-book" } else if from_initial { "in-book" } else { "book-prefix-on-supplied-position" };
                match r {
                    Ok(em) => {
                        let k = key_of_engine(&em);
                        let m = match legal.iter().find(|l| key_of_model(l) == k) {
                            Some(m) => *m,
                            None => {
                                out.violation = Some(Violation {
                                    class: format!("C15/engine-move-not-legal/{}", where_),
                                    detail: format!("engine proposed {:?} in {} after {:?}", k, pos.to_fen(), history.iter().map(|m| m.uci()).collect::<Vec<_>>()),
                                    at_op: i,
                                });
                                break;
                            }
                        };
                        if *choice >= 1000 {
                            // asked only; the answer is not played
                            stats.bump("probe/engine-asked-without-playing");
                            continue;
                        }
                        // play it, as the loops do
                        if game.apply_chess_move(em).is_err() {
                            out.violation = Some(Violation {
                                class: format!("C15/engine-move-cannot-be-played/{}", where_),
                                detail: format!("engine proposed {} in {} but applying it failed", m.uci(), pos.to_fen()),
                                at_op: i,
                            });
                            break;
                        }
                        game.board_mut().toggle_turn();
                        pos = pos.make(&m);
                        history.push(m);
                        digest.eat(game.board().current_position_hash());
                        if !same_position(game.board(), &pos) {
                            out.desync = Some("successor-differs".into());
                            break;
                        }
                    }
                    Err(e) => {
                        out.violation = Some(Violation {
                            class: format!("C15/engine-returns-error-although-legal-move-exists/{}", where_),
                            detail: format!("{:?} in {} after {:?} (depth {})", e, pos.to_fen(), history.iter().map(|m| m.uci()).collect::<Vec<_>>(), depth),
                            at_op: i,
                        });
                        break;
                    }
                }
            }
            Op::PeerMove(k) => {
                if legal.is_empty() {
                    continue;
                }
                set_phase("uci");
                stats.bump("op-peer-move");
                // every legal move: rendering, distinctness, round trip through the bridge parser
                let mut seen: HashMap<String, Mv> = HashMap::new();
                let mut bad: Option<(String, String)> = None;
                for m in legal.iter() {
                    let em = to_engine_move(m, pos.stm);
                    let text = em.to_uci();
                    evals += 1;
                    if text != m.uci() {
                        bad = Some((
                            format!("C19/rendering-not-standard/{}", if m.castle.is_some() { "castle" } else if m.promo.is_some() { "promotion" } else if m.ep { "en-passant" } else { "standard" }),
                            format!("{} in {} rendered as '{}'", m.uci(), pos.to_fen(), text),
                        ));
                        break;
                    }
                    if let Some(prev) = seen.insert(text.clone(), *m) {
                        bad = Some(("C19/two-moves-share-a-text".into(), format!("{:?} and {:?} both render as '{}' in {}", prev, m, text, pos.to_fen())));
                        break;
                    }
                    set_phase("peer");
                    let parsed = verif_create_chess_move_from_uci(&text, game.board());
                    let mut copy = game.board().clone();
                    let applied = parsed.apply(&mut copy);
                    evals += 1;
                    let next = pos.make(m);
                    if applied.is_err() || !same_position(&copy, &next) || key_of_engine(&parsed) != key_of_engine(&em) {
                        bad = Some((
                            format!("C19/reading-back-does-not-reconstruct-the-move/{}", if m.castle.is_some() { "castle" } else if m.promo.is_some() { "promotion" } else if m.ep { "en-passant" } else { "standard" }),
                            format!("'{}' in {} parsed as {:?} (apply {:?}); expected {:?}", text, pos.to_fen(), key_of_engine(&parsed), applied.is_ok(), key_of_engine(&em)),
                        ));
                        break;
                    }
                    match (m.castle.is_some(), m.promo.is_some(), m.ep) {
                        (true, _, _) => stats.bump("probe/uci-castle-round-trip"),
                        (_, true, _) => stats.bump("probe/uci-promotion-round-trip"),
                        (_, _, true) => stats.bump("probe/uci-en-passant-round-trip"),
                        _ => {}
                    }
                }
                if let Some((class, detail)) = bad {
                    out.violation = Some(Violation { class, detail, at_op: i });
                    break;
                }
                // the peer's reply travels as text through the real parser and is played
                let m = legal[*k as usize % legal.len()];
                set_phase("peer");
                let reply = m.uci();
                let parsed = verif_create_chess_move_from_uci(&reply, game.board());
                if game.apply_chess_move(parsed.clone()).is_err() {
                    out.violation = Some(Violation {
                        class: "C19/peer-reply-cannot-be-played".into(),
                        detail: format!("peer reply '{}' in {} parsed as {:?} and could not be applied", reply, pos.to_fen(), key_of_engine(&parsed)),
                        at_op: i,
                    });
                    break;
                }
                uci_history.push(parsed.to_uci());
                game.board_mut().toggle_turn();
                pos = pos.make(&m);
                history.push(m);
                digest.eat(game.board().current_position_hash());
                evals += 1;
                if !same_position(game.board(), &pos) {
                    out.violation = Some(Violation {
                        class: "C19/boards-desynchronised-after-peer-reply".into(),
                        detail: format!("after peer reply '{}' the engine board is {} but the peer's is {}", reply, read_board(game.board()).to_fen(), pos.to_fen()),
                        at_op: i,
                    });
                    break;
                }
                // the position the engine would announce next must replay to the same position
                let mut replay = start.clone();
                let mut ok = true;
                for t in uci_history.iter() {
                    match replay.legal_moves().iter().find(|x| x.uci() == *t) {
                        Some(x) => replay = replay.make(x),
                        None => {
                            ok = false;
                            break;
                        }
                    }
                }
                evals += 1;
                if !ok || replay.sq != pos.sq || replay.rights != pos.rights || replay.ep != pos.ep {
                    out.violation = Some(Violation {
                        class: "C19/announced-history-does-not-replay".into(),
                        detail: format!("'position startpos moves {}' does not replay to {}", uci_history.join(" "), pos.to_fen()),
                        at_op: i,
                    });
                    break;
                }
            }
            _ => {}
        }
    }
    // C14 thorough: all 4096 coordinate pairs at the final state
    if prop == "C14" && out.violation.is_none() && out.desync.is_none() && plan.knob("all_pairs", 0) == 1 {
        set_phase("typed");
        let legal = pos.legal_moves();
        for f in 0..64u8 {
            for t in 0..64u8 {
                if legal.iter().any(|m| m.from == f && m.to == t) {
                    continue; // accepted ones would advance the game; they are exercised in the stream
                }
                let before = snapshot(game.board());
                let cmd = MakeMove::Coordinate { from_square: sq_name(f), to_square: sq_name(t) };
                let r = cmd.execute(&mut game);
                evals += 1;
                if r.is_ok() {
                    out.violation = Some(Violation {
                        class: "C14/illegal-input-accepted/coordinates".into(),
                        detail: format!("{}{} accepted in {}", sq_name(f), sq_name(t), pos.to_fen()),
                        at_op: plan.ops.len(),
                    });
                    break;
                }
                if let Some(field) = snapshot_diff(&before, &snapshot(game.board())) {
                    out.violation = Some(Violation {
                        class: format!("C14/rejected-input-changed-the-game/coordinates/{}", field),
                        detail: format!("{}{} rejected in {} but {} changed", sq_name(f), sq_name(t), pos.to_fen(), field),
                        at_op: plan.ops.len(),
                    });
                    break;
                }
            }
            if out.violation.is_some() {
                break;
            }
        }
        stats.bump("fault/all-4096-coordinate-pairs");
    }
    chess::verif_hooks::set_chooser(None);
    stats.add("steps", plan.ops.len() as u64);
    out.stats = stats;
    out.digest = digest.0;
    out.oracle_evals = evals;
    out
}
