//! Controlled-scheduler scenarios (build B): the real search / perft code runs
//! on W simulated workers (verif_simpool) with shuttle deciding every
//! interleaving at each access to the shared result cache and counters.
//! C09: (move, score) equals the baseline (W = 1, in-order, same initial
//! cache) under every explored schedule; no deadlock, panic or step overrun.
//! C07/C10 get their schedule dimension here as well.

use std::panic::{catch_unwind, AssertUnwindSafe};
use std::sync::atomic::{AtomicU64, Ordering};
use std::sync::{Arc, Mutex};

use chess::alpha_beta_searcher::{alpha_beta_search, SearchContext, SearchError};
use chess::board::Board;
use chess::move_generator::MoveGenerator;
use shuttle::scheduler::{PctScheduler, RandomScheduler, ReplayScheduler, RoundRobinScheduler, UrwRandomScheduler};
use shuttle::{Config, FailurePersistence, MaxSteps, Runner};

use crate::eng::*;
use crate::gen::{choose_move, choose_start, random_setup, Policy, StartKind, TERMINAL_FENS};
use crate::model::Pos;
use crate::plan::{Op, Outcome, Plan, Stats, Violation};
use crate::prng::{mix, Digest, Rng};
use crate::{set_phase, Tier};

/// Endings whose depth-5 search visits on the order of 10^5 positions.
pub const BIG_SEARCH_FENS: [&str; 4] = [
    "8/5k2/2n2ppp/8/8/2N2PPP/5K2/8 w - - 0 1",
    "8/4k3/1r3pp1/8/8/1R3PP1/4K3/8 w - - 0 1",
    "8/3k4/2b1pp2/8/8/2B1PP2/3K4/8 b - - 0 1",
    "6k1/5pp1/8/3q4/3Q4/8/5PP1/6K1 w - - 0 1",
];

/// Bare-king endings a few moves from mate (depth 5 sees mates of several lengths).
pub const MATING_FENS: [&str; 5] = [
    "7k/8/5K2/8/8/8/8/3Q4 w - - 0 1",
    "k7/8/1K6/8/8/8/8/7R w - - 0 1",
    "8/8/8/8/8/2kq4/8/K7 b - - 0 1",
    "6k1/8/5K2/8/8/8/8/R6R w - - 0 1",
    "8/8/8/7r/6r1/1k6/8/K7 b - - 0 1",
];

static LARGEST_SEARCH: AtomicU64 = AtomicU64::new(0);

#[derive(Clone, Debug, PartialEq)]
struct Answer {
    /// (from, to, promo, kind) of the returned move, or the error name
    result: Result<MoveKey, String>,
    score: Option<i16>,
    counts: Vec<u64>,
    board_unchanged: bool,
    /// result-cache hits during the final search (steering only, never compared)
    hits: u64,
}

pub fn gen_plan(property: &str, seed: u64, index: u64, tier: Tier) -> Plan {
    let mut rng = Rng::new(mix(seed, index, 0x5343));
    let thorough = tier == Tier::Thorough;
    let mut knobs = std::collections::BTreeMap::new();
    let mut ops: Vec<Op> = Vec::new();
    let start: Pos;
    let scenario: &str;
    let workers = *rng.pick(&[1usize, 2, 2, 3, 4, 4, 8, 8, 16, 64]);
    knobs.insert("workers".into(), workers as i64);
    knobs.insert("steal".into(), *rng.pick(&[0i64, 100, 100, 500]));
    // strategy: 0 random, 1 PCT, 2 uniform random walk
    let strategy = *rng.pick(&[1i64, 1, 1, 0, 0, 2]);
    knobs.insert("strategy".into(), strategy);
    knobs.insert("pct_depth".into(), rng.range(1, 5) as i64);
    knobs.insert("sched_seed".into(), (rng.next() >> 1) as i64);
    match property {
        "C09" => {
            let mode = rng.below(10);
            let depth: u8;
            let mut big = false;
            if mix(seed, index, 0x4d41) % 10 == 0 {
                // near-mate endings searched deep: several forced mates of different length below the root
                start = Pos::from_fen(*rng.pick(&MATING_FENS[..])).unwrap();
                depth = 5;
                scenario = "mating-ending-deep";
            } else if mix(seed, index, 0x4247) % 8 == 0 {
                // big search: > 10^5 positions in one context (depth 5 on an ending, warmed by earlier
                // searches), so that whatever accumulates in the shared state really accumulates
                start = Pos::from_fen(*rng.pick(&BIG_SEARCH_FENS[..])).unwrap();
                depth = 5;
                big = true;
                scenario = "big-search";
            } else if mode < 6 {
                // the steered slice: sparse boards, deep enough for cross-depth transpositions
                let (_, s) = if rng.chance(2, 3) {
                    choose_start(&mut rng, &[(StartKind::Endgame, 1)])
                } else {
                    let extra = rng.range(2, 4);
                    (StartKind::Random, random_setup(&mut rng, extra))
                };
                start = s;
                depth = if thorough { rng.range(4, 5) as u8 } else { 4 };
                scenario = "sparse-board-deep";
            } else {
                let (_, s) = choose_start(&mut rng, &[(StartKind::Initial, 1), (StartKind::Suite, 2), (StartKind::Special, 3), (StartKind::Random, 3)]);
                start = s;
                depth = if start.piece_count() > 14 { 2 } else { 3 };
                scenario = "middlegame";
            }
            knobs.insert("depth".into(), depth as i64);
            knobs.insert("iterations".into(), if big { if thorough { 6 } else { 3 } } else if thorough { if depth >= 5 { 8 } else { 40 } } else if depth >= 5 { 6 } else { 10 });
            // initial cache contents: empty, or warmed by 0..3 earlier searches run sequentially
            let warm = if big { 2 } else { rng.below(4) };
            let mut pos = start.clone();
            for _ in 0..warm {
                let legal = pos.legal_moves();
                if legal.is_empty() {
                    break;
                }
                ops.push(Op::Search(depth));
                let k = choose_move(&mut rng, &pos, &legal, Policy::Uniform, None);
                ops.push(Op::Make(k as u32));
                pos = pos.make(&legal[k]);
            }
            ops.push(Op::Search(depth));
        }
        "C07" | "C12" => {
            scenario = if property == "C12" { "invariant-monitor-under-scheduler" } else { "search-under-scheduler" };
            let roll = rng.below(10);
            if roll < 2 {
                start = Pos::from_fen(*rng.pick(&TERMINAL_FENS[..])).unwrap();
            } else {
                let (_, s) = choose_start(&mut rng, &[(StartKind::Endgame, 2), (StartKind::Special, 3), (StartKind::Random, 4), (StartKind::Initial, 1)]);
                start = s;
            }
            let depth = if start.piece_count() > 12 { rng.range(0, 2) } else { rng.range(0, 3) } as u8;
            knobs.insert("depth".into(), depth as i64);
            knobs.insert("iterations".into(), if thorough { 12 } else { 4 });
            ops.push(Op::Search(depth));
        }
        "C10" => {
            scenario = "count-under-scheduler";
            let (_, s) = choose_start(&mut rng, &[(StartKind::Initial, 2), (StartKind::Suite, 3), (StartKind::Special, 3), (StartKind::Random, 3)]);
            start = s;
            let depth = if start.piece_count() > 16 { rng.range(0, 2) } else { rng.range(1, 3) } as u8;
            knobs.insert("depth".into(), depth as i64);
            knobs.insert("iterations".into(), if thorough { 8 } else { 3 });
            ops.push(Op::Perft(depth, 0));
        }
        other => panic!("no scheduler scenario for {}", other),
    }
    Plan {
        property: property.to_string(),
        scenario: scenario.to_string(),
        seed,
        index,
        start_fen: start.to_fen(),
        lru: 4096,
        register: false,
        knobs,
        ops,
        schedule: String::new(),
    }
}

/// The workload: everything from board construction to the final answer happens
/// inside the shuttle execution. Warm-up searches run with one worker in order;
/// the last operation runs with `workers` simulated workers.
fn workload(plan: &Plan, workers: usize, steal: usize) -> Answer {
    let mut pos = Pos::from_fen(&plan.start_fen).expect("fen");
    pos.half = 0;
    pos.plies = 0;
    let depth = plan.knob("depth", 2) as u8;
    let mut board: Board = build_board(&pos, None);
    let mut gen = MoveGenerator::new();
    let mut ctx = SearchContext::new(depth);
    let last = plan.ops.len().saturating_sub(1);
    let mut answer = Answer {
        result: Err("no-op".into()),
        score: None,
        counts: Vec::new(),
        board_unchanged: true,
        hits: 0,
    };
    for (i, op) in plan.ops.iter().enumerate() {
        if i == last {
            verif_simpool::configure(workers, steal);
        } else {
            verif_simpool::configure(1, 0);
        }
        crate::watchdog_touch();
        match op {
            Op::Make(k) => {
                let legal = pos.legal_moves();
                if legal.is_empty() {
                    continue;
                }
                let m = legal[*k as usize % legal.len()];
                to_engine_move(&m, pos.stm).apply(&mut board).expect("apply");
                board.toggle_turn();
                pos = pos.make(&m);
            }
            Op::Search(_) => {
                let before = snapshot(&board);
                let r = alpha_beta_search(&mut ctx, &mut board, &mut gen);
                LARGEST_SEARCH.fetch_max(ctx.searched_position_count() as u64, Ordering::SeqCst);
                let after = snapshot(&board);
                answer = Answer {
                    result: match r {
                        Ok(m) => Ok(key_of_engine(&m)),
                        Err(SearchError::NoAvailableMoves) => Err("NoAvailableMoves".into()),
                        Err(SearchError::DepthTooLow) => Err("DepthTooLow".into()),
                    },
                    score: ctx.last_score(),
                    counts: Vec::new(),
                    board_unchanged: before == after,
                    hits: ctx.cache_hit_count() as u64,
                };
            }
            Op::Perft(d, _) => {
                let n = gen.count_positions(*d, &mut board, color(pos.stm)) as u64;
                answer = Answer {
                    result: Err("perft".into()),
                    score: None,
                    counts: vec![n],
                    board_unchanged: true,
                    hits: 0,
                };
            }
            _ => {}
        }
    }
    answer
}

fn shuttle_config(dir: &std::path::Path) -> Config {
    let mut c = Config::new();
    c.stack_size = 16 << 20;
    c.max_steps = MaxSteps::FailAfter(200_000_000);
    c.failure_persistence = FailurePersistence::File(Some(dir.to_path_buf()));
    c.silence_warnings = true;
    c
}

fn scratch_dir() -> std::path::PathBuf {
    let base = std::env::var("VERIF_SCRATCH").unwrap_or_else(|_| "/verif/.build/tmp".to_string());
    let d = std::path::PathBuf::from(base).join(format!("sched-{}", std::process::id()));
    let _ = std::fs::create_dir_all(&d);
    d
}

fn clear_dir(d: &std::path::Path) {
    if let Ok(rd) = std::fs::read_dir(d) {
        for e in rd.flatten() {
            let _ = std::fs::remove_file(e.path());
        }
    }
}

fn read_schedule(d: &std::path::Path) -> Option<String> {
    let mut names: Vec<_> = std::fs::read_dir(d).ok()?.flatten().map(|e| e.path()).collect();
    names.sort();
    names.last().and_then(|p| std::fs::read_to_string(p).ok())
}

fn final_position(plan: &Plan) -> Pos {
    let mut pos = Pos::from_fen(&plan.start_fen).expect("fen");
    pos.half = 0;
    pos.plies = 0;
    for op in plan.ops.iter() {
        if let Op::Make(k) = op {
            let legal = pos.legal_moves();
            if !legal.is_empty() {
                pos = pos.make(&legal[*k as usize % legal.len()]);
            }
        }
    }
    pos
}

/// Judges one answer of a scheduled execution; returns (class, detail) on violation.
fn judge(plan: &Plan, baseline: &Answer, got: &Answer, fin: &Pos) -> Option<(String, String)> {
    let depth = plan.knob("depth", 2);
    match plan.property.as_str() {
        "C09" => {
            if got.result != baseline.result || got.score != baseline.score {
                let what = if got.result != baseline.result { "move" } else { "score" };
                return Some((
                    format!("C09/answer-depends-on-schedule/{}-differs", what),
                    format!(
                        "{} depth {}: baseline (1 worker, in order) {:?} score {:?}; under this schedule with {} workers {:?} score {:?}",
                        fin.to_fen(), depth, baseline.result, baseline.score, plan.knob("workers", 1), got.result, got.score
                    ),
                ));
            }
            None
        }
        "C07" => {
            let legal = fin.legal_moves();
            let bad = if depth == 0 {
                got.result != Err("DepthTooLow".to_string())
            } else if legal.is_empty() {
                got.result != Err("NoAvailableMoves".to_string())
            } else {
                match &got.result {
                    Ok(k) => !legal.iter().any(|m| key_of_model(m) == *k),
                    Err(_) => true,
                }
            };
            if bad {
                return Some((
                    "C07/wrong-answer-under-scheduler".into(),
                    format!("{} depth {} with {} workers: {:?} ({} legal moves)", fin.to_fen(), depth, plan.knob("workers", 1), got.result, legal.len()),
                ));
            }
            if !got.board_unchanged {
                return Some(("C07/search-leaves-board-changed/under-scheduler".into(), format!("{} depth {}", fin.to_fen(), depth)));
            }
            None
        }
        "C10" => {
            let mut want = 0u64;
            for k in 1..=(depth as u32 + 1) {
                want += fin.perft(k);
            }
            if got.counts != vec![want] {
                return Some((
                    format!("C10/count-differs-from-reference/under-scheduler/{}", if got.counts.first().copied().unwrap_or(0) > want { "too-many" } else { "too-few" }),
                    format!("{}: count_positions({}) = {:?} with {} workers, reference {}", fin.to_fen(), depth, got.counts, plan.knob("workers", 1), want),
                ));
            }
            None
        }
        _ => None,
    }
}

fn classify_panic(prop: &str, msg: &str) -> (String, String) {
    let low = msg.to_lowercase();
    if let Some(rest) = msg.strip_prefix("VERIF-JUDGE|") {
        let mut parts = rest.splitn(2, '|');
        let class = parts.next().unwrap_or("").to_string();
        let detail = parts.next().unwrap_or("").split(" @ /").next().unwrap_or("").to_string();
        return (class, detail);
    }
    if low.contains("deadlock") {
        return (format!("{}/deadlock", prop), msg.to_string());
    }
    if low.contains("exceeded max_steps") || low.contains("max_steps") {
        return (format!("{}/step-overrun", prop), msg.to_string());
    }
    (format!("{}/panic-under-scheduler/{}", prop, crate::normalise_panic_pub(msg)), msg.to_string())
}

pub fn exec(plan: &Plan) -> Outcome {
    let mut out = Outcome::default();
    let mut stats = Stats::default();
    let mut digest = Digest::new();
    chess::verif_hooks::set_lru_capacity(plan.lru);
    set_phase("search");
    let dir = scratch_dir();
    clear_dir(&dir);
    let workers = plan.knob("workers", 4) as usize;
    let steal = plan.knob("steal", 100) as usize;
    let fin = final_position(plan);
    if fin.fingerprint() % 64 == 0 {
        out.state_sample.push(fin.fingerprint());
    }
    let plan_arc = Arc::new(plan.clone());

    if plan.property == "C12" {
        install_monitor();
        let _ = take_monitor_violation();
    }
    // 1. baseline: one worker, in order, deterministic scheduler
    let baseline: Arc<Mutex<Option<Answer>>> = Arc::new(Mutex::new(None));
    {
        let b = baseline.clone();
        let p = plan_arc.clone();
        let r = catch_unwind(AssertUnwindSafe(|| {
            Runner::new(RoundRobinScheduler::new(1), shuttle_config(&dir)).run(move || {
                let a = workload(&p, 1, 0);
                *b.lock().unwrap() = Some(a);
            });
        }));
        if r.is_err() {
            let msg = crate::take_last_panic().unwrap_or_else(|| "panic".into());
            if plan.property == "C12" && !msg.starts_with("VERIF-JUDGE|") {
                out.desync = Some(format!("search failed in the baseline: {}", msg.chars().take(160).collect::<String>()));
                out.stats = stats;
                out.oracle_evals = 1;
                return out;
            }
            let (class, detail) = classify_panic(&plan.property, &msg);
            out.violation = Some(Violation {
                class: format!("{}/in-baseline", class),
                detail,
                at_op: 0,
            });
            out.schedule = read_schedule(&dir);
            out.stats = stats;
            out.oracle_evals = 1;
            return out;
        }
    }
    let baseline = baseline.lock().unwrap().clone().expect("baseline answer");
    let _ = verif_simpool::take_trace();
    digest.eat(baseline.score.unwrap_or(0) as u64);
    // the baseline itself is judged for C07 / C10 (for C09 it is the reference)
    if let Some((class, detail)) = judge(plan, &baseline, &baseline, &fin) {
        out.violation = Some(Violation { class, detail, at_op: 0 });
        out.stats = stats;
        out.oracle_evals = 1;
        return out;
    }

    // 2. explored schedules (or the replayed one)
    let mut iterations = plan.knob("iterations", 10) as usize;
    if plan.property == "C09" {
        if baseline.hits == 0 {
            // the in-order run saw no result-cache hit at all, so no task can read what another
            // task wrote under any schedule: two schedules are enough here, the budget goes elsewhere
            iterations = iterations.min(2);
            stats.bump("steering/no-cache-sharing-in-baseline");
        } else {
            stats.bump("probe/baseline-had-result-cache-hits");
        }
    }
    let evals = Arc::new(AtomicU64::new(0));
    let sigs: Arc<Mutex<Vec<u64>>> = Arc::new(Mutex::new(Vec::new()));
    let switches = Arc::new(AtomicU64::new(0));
    let body = {
        let p = plan_arc.clone();
        let base = baseline.clone();
        let fin = fin.clone();
        let evals = evals.clone();
        let sigs = sigs.clone();
        let switches = switches.clone();
        move || {
            crate::watchdog_touch();
            let got = workload(&p, workers, steal);
            evals.fetch_add(1, Ordering::SeqCst);
            if p.property == "C12" {
                if let Some(v) = take_monitor_violation() {
                    let mut parts = v.splitn(2, '|');
                    let what = parts.next().unwrap_or("").to_string();
                    let fen = parts.next().unwrap_or("").to_string();
                    panic!("VERIF-JUDGE|C12/{}/transient-state-on-a-search-worker|state {} seen on a simulated search worker ({} workers) searching {}", what, fen, workers, fin.to_fen());
                }
            }
            let trace = verif_simpool::take_trace();
            let mut d = Digest::new();
            for t in trace.iter() {
                d.eat(*t as u64);
            }
            let cs = shuttle::current::context_switches() as u64;
            d.eat(cs);
            switches.fetch_add(cs, Ordering::SeqCst);
            sigs.lock().unwrap().push(d.0);
            if let Some((class, detail)) = judge(&p, &base, &got, &fin) {
                panic!("VERIF-JUDGE|{}|{}", class, detail);
            }
        }
    };
    clear_dir(&dir);
    let replaying = !plan.schedule.is_empty();
    let sched_seed = plan.knob("sched_seed", 1) as u64;
    // PCT refuses workloads without concurrency (one worker, or at most one root task)
    let concurrent = workers > 1 && fin.legal_moves().len() > 1 && plan.knob("depth", 2) > 0;
    let strategy = if plan.knob("strategy", 1) == 1 && !concurrent { 0 } else { plan.knob("strategy", 1) };
    let r = catch_unwind(AssertUnwindSafe(|| {
        let cfg = shuttle_config(&dir);
        if replaying {
            Runner::new(ReplayScheduler::new_from_encoded(&plan.schedule), cfg).run(body);
        } else {
            match strategy {
                0 => {
                    Runner::new(RandomScheduler::new_from_seed(sched_seed, iterations), cfg).run(body);
                }
                2 => {
                    Runner::new(UrwRandomScheduler::new_from_seed(sched_seed, iterations), cfg).run(body);
                }
                _ => {
                    Runner::new(PctScheduler::new_from_seed(sched_seed, plan.knob("pct_depth", 3) as usize, iterations), cfg).run(body);
                }
            }
        }
    }));
    if r.is_err() {
        let msg = crate::take_last_panic().unwrap_or_else(|| "panic".into());
        if msg.contains("did not exercise any concurrency") {
            // PCT's own precondition, not a property of the code under test
            stats.bump("pct-refused-sequential-workload");
            out.stats = stats;
            out.oracle_evals = 1;
            return out;
        }
        if replaying && (msg.contains("scheduled task is not runnable") || msg.contains("schedule")) && !msg.starts_with("VERIF-JUDGE|") {
            // the recorded schedule does not fit this code (different synchronisation pattern)
            out.desync = Some(format!("replayed schedule does not fit: {}", msg.chars().take(120).collect::<String>()));
            out.stats = stats;
            out.oracle_evals = 1;
            return out;
        }
        if plan.property == "C12" && !msg.starts_with("VERIF-JUDGE|") {
            // C12 judges representation invariants only; a panicking or deadlocking search is C07/C09's subject
            out.desync = Some(format!("search failed under the scheduler: {}", msg.chars().take(160).collect::<String>()));
            out.stats = stats;
            out.oracle_evals = 1;
            return out;
        }
        let (class, detail) = classify_panic(&plan.property, &msg);
        out.violation = Some(Violation { class, detail, at_op: plan.ops.len().saturating_sub(1) });
        out.schedule = if replaying { Some(plan.schedule.clone()) } else { read_schedule(&dir) };
    }
    clear_dir(&dir);
    let _ = std::fs::remove_dir(&dir);
    if plan.property == "C12" {
        remove_monitor();
        let (st, a, u, f) = monitor_counts();
        stats.add("monitor/states-checked", st);
        stats.add("monitor/applies", a);
        stats.add("monitor/undos", u);
        stats.add("monitor/failed-ops", f);
        OBS_STATES.store(0, Ordering::Relaxed);
        OBS_APPLIED.store(0, Ordering::Relaxed);
        OBS_UNDONE.store(0, Ordering::Relaxed);
        OBS_FAILED_OPS.store(0, Ordering::Relaxed);
    }
    let n = evals.load(Ordering::SeqCst);
    stats.add("scheduled-executions", n);
    stats.add("fault/thread-interleaving-explored", n);
    stats.add("context-switches", switches.load(Ordering::SeqCst));
    stats.add(&format!("workers/{}", workers), 1);
    stats.add(
        match strategy {
            0 => "strategy/random",
            2 => "strategy/uniform-random-walk",
            _ => "strategy/pct",
        },
        n,
    );
    let (pool_runs, tasks, ooo) = verif_simpool::stats();
    stats.add("simpool/pool-invocations-so-far", pool_runs as u64);
    stats.add("simpool/root-tasks-so-far", tasks as u64);
    stats.add("fault/out-of-order-task-start-so-far", ooo as u64);
    stats.add("steps", switches.load(Ordering::SeqCst));
    let largest = LARGEST_SEARCH.swap(0, Ordering::SeqCst);
    if largest >= 25_000 {
        stats.bump("probe/search-of-25k-positions-or-more");
    }
    if largest >= 100_000 {
        stats.bump("probe/search-of-100k-positions-or-more");
    }
    out.interleavings = sigs.lock().unwrap().clone();
    out.stats = stats;
    out.digest = digest.0;
    out.oracle_evals = 1 + n;
    out
}

/// Workload shrinking for schedule-dependent failures: simpler knobs first, the
/// schedule re-searched under a small budget for each candidate.
pub fn shrink(plan: &Plan, class: &str, budget_execs: usize) -> (Plan, usize) {
    let mut best = plan.clone();
    let mut execs = 0usize;
    let mut attempt = |cand: Plan, execs: &mut usize| -> Option<Plan> {
        if *execs >= budget_execs {
            return None;
        }
        *execs += 1;
        let mut c = cand;
        c.schedule.clear();
        let o = exec(&c);
        match o.violation {
            Some(v) if v.class == class => {
                if let Some(s) = o.schedule {
                    c.schedule = s;
                }
                Some(c)
            }
            _ => None,
        }
    };
    // fewer workers
    for w in [2i64, 3, 4] {
        if w < best.knob("workers", 4) {
            let mut c = best.clone();
            c.knobs.insert("workers".into(), w);
            c.knobs.insert("iterations".into(), 40);
            if let Some(p) = attempt(c, &mut execs) {
                best = p;
                break;
            }
        }
    }
    // no warm-up
    if best.ops.len() > 1 {
        let mut c = best.clone();
        let last = c.ops.last().cloned().unwrap();
        let makes: Vec<Op> = c.ops.iter().filter(|o| matches!(o, Op::Make(_))).cloned().collect();
        c.ops = makes;
        c.ops.push(last);
        c.knobs.insert("iterations".into(), 40);
        if let Some(p) = attempt(c, &mut execs) {
            best = p;
        }
    }
    // in-order task start
    if best.knob("steal", 0) != 0 {
        let mut c = best.clone();
        c.knobs.insert("steal".into(), 0);
        c.knobs.insert("iterations".into(), 40);
        if let Some(p) = attempt(c, &mut execs) {
            best = p;
        }
    }
    // fewer pre-emptions
    for d in [1i64, 2] {
        if best.knob("strategy", 1) == 1 && d < best.knob("pct_depth", 3) {
            let mut c = best.clone();
            c.knobs.insert("pct_depth".into(), d);
            c.knobs.insert("iterations".into(), 60);
            if let Some(p) = attempt(c, &mut execs) {
                best = p;
                break;
            }
        }
    }
    (best, execs)
}
