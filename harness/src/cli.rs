//! Process-level tiers (build A): the real `chess` binary on real pipes.
//!
//! C14 — `chess pvp`: a simulated player types whole games on stdin — every move
//! as the label the engine itself prints for it (canonical SAN incl. `O-O+`,
//! `O-O-O#`) or as coordinates, mixed with faulted lines — and the boards the
//! program prints are parsed and compared with the model. Pipe faults: chunked
//! writes, padding blanks, missing final newline.
//! C10 — `chess count-positions --depth d`: stdout parsed and compared with the
//! model's cumulative perft.

use std::io::{BufRead, BufReader, Write};
use std::process::{Child, Command, Stdio};
use std::sync::mpsc::{channel, Receiver, RecvTimeoutError};
use std::time::Duration;

use crate::gen::{choose_move, Policy};
use crate::model::{san, san_lenient_matches, sq_name, Mv, Pos, Side, P};
use crate::plan::{Op, Outcome, Plan, Stats, Violation};
use crate::prng::{mix, Digest, Rng};
use crate::Tier;

fn chess_bin() -> String {
    std::env::var("VERIF_CHESS_BIN").unwrap_or_else(|_| "/verif/.build/repo/seq/target/debug/chess".to_string())
}

pub fn gen_plan(property: &str, seed: u64, index: u64, tier: Tier) -> Plan {
    let mut rng = Rng::new(mix(seed, index, 0x434c));
    let mut knobs = std::collections::BTreeMap::new();
    let mut ops: Vec<Op> = Vec::new();
    if property == "C10CLI" {
        // depth 4 from the initial position is the figure the README publishes (5,072,212)
        knobs.insert("depth".into(), 4);
        let _ = tier;
        return Plan {
            property: "C10".into(),
            scenario: "cli-count-positions".into(),
            seed,
            index,
            start_fen: Pos::startpos().to_fen(),
            lru: 0,
            register: false,
            knobs,
            ops,
            schedule: String::new(),
        };
    }
    knobs.insert("chunk".into(), *rng.pick(&[0i64, 0, 1, 2, 3]));
    knobs.insert("no_final_newline".into(), rng.chance(1, 4) as i64);
    let policy = *rng.pick(&[Policy::Spicy, Policy::Hunt, Policy::Hunt, Policy::Uniform]);
    let len = rng.range(8, if tier == Tier::Thorough { 120 } else { 60 });
    let mut pos = Pos::startpos();
    for _ in 0..len {
        let legal = pos.legal_moves();
        if legal.is_empty() {
            break;
        }
        if rng.chance(1, 4) {
            // a faulted line before the real one
            let text = match rng.below(5) {
                0 => "".to_string(),
                1 => "hello".to_string(),
                2 => {
                    let m = rng.pick(&legal);
                    format!("{}{}", sq_name(m.to), sq_name(m.from))
                }
                3 => {
                    let l = san(&pos, rng.pick(&legal), &legal);
                    format!("{}x", l)
                }
                _ => "e9".to_string(),
            };
            ops.push(Op::Typed(text));
        }
        // prefer castling / promotion / checking moves so that their labels get typed
        let mut k = choose_move(&mut rng, &pos, &legal, policy, None);
        if let Some(c) = legal.iter().position(|m| m.castle.is_some()) {
            if rng.chance(2, 3) {
                k = c;
            }
        }
        let m = legal[k];
        let pad_l = " ".repeat(rng.below(3));
        let pad_r = " ".repeat(rng.below(3));
        let text = if rng.chance(2, 3) || (m.promo.is_some() && m.promo != Some(P::Queen)) {
            san(&pos, &m, &legal)
        } else {
            format!("{}{}", sq_name(m.from), sq_name(m.to))
        };
        let played = if text.len() == 4 && m.promo.is_some() && !text.contains('=') {
            *legal.iter().find(|x| x.from == m.from && x.to == m.to && x.promo == Some(P::Queen)).unwrap()
        } else {
            m
        };
        ops.push(Op::Typed(format!("{}{}{}", pad_l, text, pad_r)));
        pos = pos.make(&played);
    }
    Plan {
        property: "C14".into(),
        scenario: "cli-pvp".into(),
        seed,
        index,
        start_fen: Pos::startpos().to_fen(),
        lru: 0,
        register: false,
        knobs,
        ops,
        schedule: String::new(),
    }
}

struct Proc {
    child: Child,
    rx: Receiver<Option<String>>,
}

impl Proc {
    fn spawn(args: &[&str]) -> Result<Proc, String> {
        let mut child = Command::new(chess_bin())
            .args(args)
            .env_remove("RUST_LOG")
            .stdin(Stdio::piped())
            .stdout(Stdio::piped())
            .stderr(Stdio::null())
            .spawn()
            .map_err(|e| format!("cannot start {}: {}", chess_bin(), e))?;
        let stdout = child.stdout.take().unwrap();
        let (tx, rx) = channel();
        std::thread::spawn(move || {
            let reader = BufReader::new(stdout);
            for line in reader.lines() {
                match line {
                    Ok(l) => {
                        if tx.send(Some(l)).is_err() {
                            return;
                        }
                    }
                    Err(_) => break,
                }
            }
            let _ = tx.send(None);
        });
        Ok(Proc { child, rx })
    }

    fn kill(&mut self) {
        let _ = self.child.kill();
        let _ = self.child.wait();
    }
}

#[derive(Debug)]
struct Block {
    messages: Vec<String>,
    turn: Option<Side>,
    board: Option<[Option<(P, Side)>; 64]>,
    ended: Option<String>,
    eof: bool,
}

fn glyph(c: char) -> Option<Option<(P, Side)>> {
    Some(match c {
        '.' => None,
        '♗' => Some((P::Bishop, Side::Black)),
        '♝' => Some((P::Bishop, Side::White)),
        '♔' => Some((P::King, Side::Black)),
        '♚' => Some((P::King, Side::White)),
        '♘' => Some((P::Knight, Side::Black)),
        '♞' => Some((P::Knight, Side::White)),
        '♙' => Some((P::Pawn, Side::Black)),
        '♟' => Some((P::Pawn, Side::White)),
        '♕' => Some((P::Queen, Side::Black)),
        '♛' => Some((P::Queen, Side::White)),
        '♖' => Some((P::Rook, Side::Black)),
        '♜' => Some((P::Rook, Side::White)),
        _ => return None,
    })
}

/// Reads up to and including the next "turn:" line and the 8 board lines after it
/// (or a game-over line / end of output). Err = watchdog timeout (harness error).
fn read_block(p: &Proc) -> Result<Block, String> {
    let mut b = Block {
        messages: Vec::new(),
        turn: None,
        board: None,
        ended: None,
        eof: false,
    };
    let mut rows: Vec<String> = Vec::new();
    loop {
        let line = match p.rx.recv_timeout(Duration::from_secs(20)) {
            Ok(Some(l)) => l,
            Ok(None) => {
                b.eof = true;
                return Ok(b);
            }
            Err(RecvTimeoutError::Timeout) => return Err("watchdog: no output from chess pvp for 20 s".into()),
            Err(RecvTimeoutError::Disconnected) => {
                b.eof = true;
                return Ok(b);
            }
        };
        if b.turn.is_some() {
            rows.push(line);
            if rows.len() == 8 {
                let mut board = [None; 64];
                for (r, row) in rows.iter().enumerate() {
                    let chars: Vec<char> = row.chars().collect();
                    if chars.len() != 8 {
                        return Err(format!("unparsable board row '{}'", row));
                    }
                    for (f, c) in chars.iter().enumerate() {
                        board[(7 - r) * 8 + f] = glyph(*c).ok_or_else(|| format!("unknown glyph '{}'", c))?;
                    }
                }
                b.board = Some(board);
                return Ok(b);
            }
            continue;
        }
        if let Some(rest) = line.strip_prefix("turn: ") {
            b.turn = Some(if rest.trim() == "white" { Side::White } else { Side::Black });
            continue;
        }
        if line == "checkmate!" || line == "stalemate!" || line == "draw!" {
            b.ended = Some(line);
            return Ok(b);
        }
        b.messages.push(line);
    }
}

fn send(p: &mut Proc, text: &str, chunk: usize, newline: bool) -> Result<(), String> {
    let stdin = p.child.stdin.as_mut().ok_or("stdin closed")?;
    let mut data = text.as_bytes().to_vec();
    if newline {
        data.push(b'\n');
    }
    if chunk == 0 {
        stdin.write_all(&data).map_err(|e| e.to_string())?;
    } else {
        for piece in data.chunks(chunk) {
            stdin.write_all(piece).map_err(|e| e.to_string())?;
            stdin.flush().map_err(|e| e.to_string())?;
        }
    }
    stdin.flush().map_err(|e| e.to_string())
}

pub fn exec(plan: &Plan) -> Outcome {
    if plan.scenario == "cli-count-positions" {
        return exec_count(plan);
    }
    let mut out = Outcome::default();
    let mut stats = Stats::default();
    let mut digest = Digest::new();
    let mut evals = 0u64;
    let chunk = plan.knob("chunk", 0) as usize;
    let no_final_newline = plan.knob("no_final_newline", 0) == 1;
    let mut proc = match Proc::spawn(&["pvp"]) {
        Ok(p) => p,
        Err(e) => {
            out.desync = Some(e);
            return out;
        }
    };
    let mut pos = Pos::startpos();
    let first = read_block(&proc);
    match &first {
        Ok(b) if b.board.map(|x| x == pos.sq).unwrap_or(false) && b.turn == Some(Side::White) => {}
        other => {
            proc.kill();
            out.desync = Some(format!("cli-pvp: unexpected first output {:?}", other.as_ref().map(|b| &b.messages)));
            return out;
        }
    }
    let last_index = plan.ops.len().saturating_sub(1);
    for (i, op) in plan.ops.iter().enumerate() {
        let text = match op {
            Op::Typed(t) => t.clone(),
            _ => continue,
        };
        let legal = pos.legal_moves();
        if legal.is_empty() {
            break;
        }
        let trimmed = text.trim();
        let labels: Vec<String> = legal.iter().map(|m| san(&pos, m, &legal)).collect();
        let coord: Option<(u8, u8)> = if trimmed.len() == 4 {
            match (crate::model::parse_sq(&trimmed[0..2]), crate::model::parse_sq(&trimmed[2..4])) {
                (Some(f), Some(t)) => Some((f, t)),
                _ => None,
            }
        } else {
            None
        };
        let (must_accept, must_reject, readings): (Option<Mv>, bool, Vec<Mv>) = if let Some((f, t)) = coord {
            let cands: Vec<Mv> = legal.iter().filter(|m| m.from == f && m.to == t).copied().collect();
            let chosen = cands.iter().find(|m| m.promo.is_none() || m.promo == Some(P::Queen)).copied();
            (chosen, cands.is_empty(), chosen.into_iter().collect())
        } else {
            let exact: Vec<Mv> = legal.iter().zip(labels.iter()).filter(|(_, l)| l.as_str() == trimmed).map(|(m, _)| *m).collect();
            let readings: Vec<Mv> = legal.iter().filter(|m| san_lenient_matches(&pos, m, trimmed)).copied().collect();
            let ma = if exact.len() == 1 { Some(exact[0]) } else { None };
            (ma, readings.is_empty() && exact.is_empty(), if exact.len() == 1 { exact } else { readings })
        };
        let newline = !(no_final_newline && i == last_index);
        if chunk > 0 {
            stats.bump("fault/chunked-write");
        }
        if text != trimmed {
            stats.bump("fault/padding-blanks");
        }
        if let Err(e) = send(&mut proc, &text, chunk, newline) {
            proc.kill();
            out.desync = Some(format!("cli-pvp: write failed: {}", e));
            return out;
        }
        if !newline {
            stats.bump("fault/missing-final-newline");
            // end of input delivers the unterminated line
            drop(proc.child.stdin.take());
        }
        let block = match read_block(&proc) {
            Ok(b) => b,
            Err(e) => {
                proc.kill();
                out.desync = Some(format!("cli-pvp: {}", e));
                return out;
            }
        };
        evals += 1;
        stats.bump("op-typed");
        let complained = block.messages.iter().any(|m| m.starts_with("invalid input") || m.starts_with("error:"));
        let board = match block.board {
            Some(b) => b,
            None => {
                proc.kill();
                out.desync = Some(format!("cli-pvp: no board after '{}' ({:?})", trimmed, block));
                return out;
            }
        };
        let kind = |m: &Mv| {
            if m.castle.is_some() {
                "castle"
            } else if m.promo.is_some() {
                "promotion"
            } else if m.ep {
                "en-passant"
            } else {
                "standard"
            }
        };
        // acceptance is read off the printed position (robust against reworded messages): a move was
        // played iff the board changed
        let rejected = board == pos.sq;
        if !rejected && complained {
            out.violation = Some(Violation {
                class: "C14/cli/rejected-input-changed-the-game".into(),
                detail: format!("chess pvp answered {:?} to '{}' in {} and yet the printed board changed", block.messages, trimmed, pos.to_fen()),
                at_op: i,
            });
            break;
        }
        if rejected {
            stats.bump("typed-rejected");
            if must_reject {
                stats.bump("fault/illegal-command-delivered");
            }
            if let Some(m) = must_accept {
                out.violation = Some(Violation {
                    class: format!("C14/cli/legal-input-rejected/{}/{}", if coord.is_some() { "coordinates" } else { "notation" }, kind(&m)),
                    detail: format!("chess pvp answered {:?} to '{}' in {}, the canonical text of the legal move {}", block.messages, trimmed, pos.to_fen(), m.uci()),
                    at_op: i,
                });
                break;
            }
            if board != pos.sq || block.turn != Some(pos.stm) {
                out.violation = Some(Violation {
                    class: "C14/cli/rejected-input-changed-the-game".into(),
                    detail: format!("after the rejected line '{}' in {} the printed board or turn changed", trimmed, pos.to_fen()),
                    at_op: i,
                });
                break;
            }
        } else {
            stats.bump("typed-accepted");
            if must_reject {
                out.violation = Some(Violation {
                    class: "C14/cli/illegal-input-accepted".into(),
                    detail: format!("'{}' accepted in {} although it names no legal move", trimmed, pos.to_fen()),
                    at_op: i,
                });
                break;
            }
            let played = readings.iter().find(|m| pos.make(m).sq == board).copied();
            match played {
                Some(m) if must_accept.map_or(true, |x| x == m) => {
                    let next = pos.make(&m);
                    if block.turn != Some(next.stm) && block.ended.is_none() {
                        out.violation = Some(Violation {
                            class: "C14/cli/turn-not-passed-after-accepted-move".into(),
                            detail: format!("after '{}' in {} the program says turn {:?}", trimmed, pos.to_fen(), block.turn),
                            at_op: i,
                        });
                        break;
                    }
                    if m.castle.is_some() && labels.iter().any(|l| l.as_str() == trimmed && (l.ends_with('+') || l.ends_with('#'))) {
                        stats.bump("probe/castling-with-check-or-mate-label-typed");
                    }
                    if m.castle.is_some() {
                        stats.bump("probe/castling-label-typed");
                    }
                    digest.eat(next.fingerprint());
                    pos = next;
                }
                _ => {
                    out.violation = Some(Violation {
                        class: "C14/cli/accepted-input-played-a-different-move".into(),
                        detail: format!("after '{}' in {} the printed board is not the successor of any move the text denotes", trimmed, pos.to_fen()),
                        at_op: i,
                    });
                    break;
                }
            }
        }
        if !newline {
            break;
        }
    }
    proc.kill();
    stats.add("steps", plan.ops.len() as u64);
    out.stats = stats;
    out.digest = digest.0;
    out.oracle_evals = evals;
    out
}

fn exec_count(plan: &Plan) -> Outcome {
    let mut out = Outcome::default();
    let mut stats = Stats::default();
    let depth = plan.knob("depth", 3) as u32;
    let output = Command::new(chess_bin())
        .args(["count-positions", "--depth", &depth.to_string()])
        .env_remove("RUST_LOG")
        // large enough that nothing is evicted during a depth-4 count, small enough to construct quickly
        .env("CHESS_VERIF_LRU_CAPACITY", "2000000")
        .stdin(Stdio::null())
        .stderr(Stdio::null())
        .output();
    let text = match output {
        Ok(o) => String::from_utf8_lossy(&o.stdout).to_string(),
        Err(e) => {
            out.desync = Some(format!("cannot run count-positions: {}", e));
            return out;
        }
    };
    let start = Pos::startpos();
    let mut evals = 0;
    for d in 1..=depth {
        let want: u64 = (1..=d + 1).map(|k| start.perft(k)).sum();
        let prefix = format!("depth: {}, positions: ", d);
        let got: Option<u64> = text
            .lines()
            .find(|l| l.starts_with(&prefix))
            .and_then(|l| l[prefix.len()..].split(',').next())
            .and_then(|n| n.trim().parse().ok());
        evals += 1;
        stats.bump("cli/count-positions-depths-compared");
        if got.is_none() {
            // the output format is not what this tier knows how to read: not a verdict
            out.desync = Some(format!("cannot find 'depth: {}, positions: N' in the output of count-positions", d));
            break;
        }
        if got != Some(want) {
            out.violation = Some(Violation {
                class: format!("C10/cli/count-positions-output-differs-from-reference/depth-{}", d),
                detail: format!("`chess count-positions --depth {}` printed {:?} for depth {}, reference {}", depth, got, d, want),
                at_op: 0,
            });
            break;
        }
    }
    out.stats = stats;
    out.oracle_evals = evals + 1;
    out
}

// ------------------------------------------------------------------ C19, process level

/// The simulated UCI peer: `sim stockfish-stub`, started by the engine as `stockfish`.
/// It is the reference model: it replays every announced history, checks that its own
/// replies came back unchanged, and answers `go` with seeded legal moves (biased to en
/// passant, castling and the promotion variants), with `info` chatter and sometimes a
/// `ponder` suffix. Its findings go to the file named by VERIF_STUB_LOG.
pub fn stockfish_stub() {
    let seed: u64 = std::env::var("VERIF_STUB_SEED").ok().and_then(|s| s.parse().ok()).unwrap_or(1);
    let max_games: u64 = std::env::var("VERIF_STUB_GAMES").ok().and_then(|s| s.parse().ok()).unwrap_or(2);
    let log = std::env::var("VERIF_STUB_LOG").unwrap_or_else(|_| "/dev/null".into());
    let mut rng = Rng::new(mix(seed, 0, 0x5355));
    let mut expected: Vec<String> = Vec::new();
    let mut announced: Pos = Pos::startpos();
    let mut announced_tokens: Vec<String> = Vec::new();
    let mut games: u64 = 1;
    let mut plies: u64 = 0;
    let mut violations: Vec<(String, String)> = Vec::new();
    let mut counts: std::collections::BTreeMap<&'static str, u64> = Default::default();
    let write_log = |games: u64, plies: u64, violations: &Vec<(String, String)>, counts: &std::collections::BTreeMap<&'static str, u64>, done: bool| {
        let v: Vec<String> = violations.iter().map(|(c, d)| format!("[{:?}, {:?}]", c, d)).collect();
        let c: Vec<String> = counts.iter().map(|(k, n)| format!("{:?}: {}", k, n)).collect();
        let _ = std::fs::write(&log, format!("{{\"games\": {}, \"plies\": {}, \"done\": {}, \"violations\": [{}], \"counts\": {{{}}}}}", games, plies, done, v.join(", "), c.join(", ")));
    };
    let stdin = std::io::stdin();
    let mut line = String::new();
    loop {
        line.clear();
        match stdin.lock().read_line(&mut line) {
            Ok(0) | Err(_) => break,
            Ok(_) => {}
        }
        let cmd = line.trim();
        if cmd == "quit" {
            break;
        }
        if let Some(rest) = cmd.strip_prefix("position startpos moves") {
            let tokens: Vec<String> = rest.split_whitespace().map(|s| s.to_string()).collect();
            if tokens.len() < expected.len() {
                // a new game begins
                games += 1;
                expected.clear();
                if games > max_games {
                    write_log(games - 1, plies, &violations, &counts, true);
                    return;
                }
            }
            if tokens.len() < expected.len() || tokens[..expected.len()] != expected[..] {
                violations.push((
                    "C19/process/announced-history-differs-from-what-was-played".into(),
                    format!("peer expected a history starting with [{}], engine announced [{}]", expected.join(" "), tokens.join(" ")),
                ));
            } else if tokens.len() > expected.len() + 1 {
                violations.push((
                    "C19/process/announced-history-skips-a-move".into(),
                    format!("peer knows [{}], engine announced [{}]", expected.join(" "), tokens.join(" ")),
                ));
            }
            let mut pos = Pos::startpos();
            for (n, t) in tokens.iter().enumerate() {
                match pos.legal_moves().iter().find(|m| m.uci() == *t) {
                    Some(m) => pos = pos.make(m),
                    None => {
                        violations.push((
                            "C19/process/announced-move-is-not-standard-or-not-legal".into(),
                            format!("move {} '{}' of the announced history [{}] is not the coordinate text of a legal move in {}", n + 1, t, tokens.join(" "), pos.to_fen()),
                        ));
                        break;
                    }
                }
            }
            announced = pos;
            announced_tokens = tokens;
            write_log(games, plies, &violations, &counts, false);
            continue;
        }
        if cmd.starts_with("go") {
            let legal = announced.legal_moves();
            if legal.is_empty() {
                println!("bestmove (none)");
                continue;
            }
            // biased choice: special moves first
            let special: Vec<&Mv> = legal.iter().filter(|m| m.ep || m.castle.is_some() || m.promo.is_some()).collect();
            // "pawn runner": in half of the games the peer pushes its most advanced pawn whenever it
            // safely can, so that promotions (all four kinds) actually travel over the pipe
            let runner = games % 2 == 0;
            let me = announced.stm;
            let advance = |m: &Mv| -> i32 {
                let r = crate::model::rank_of(m.to) as i32;
                if me == Side::White { r } else { 7 - r }
            };
            let safe_pushes: Vec<&Mv> = legal
                .iter()
                .filter(|m| m.piece == P::Pawn && m.promo.is_none() && !announced.make(m).attacked(m.to, me.other()))
                .collect();
            let promos: Vec<&Mv> = legal.iter().filter(|m| m.promo.is_some()).collect();
            let m: Mv = if !promos.is_empty() {
                // all four kinds, in turn
                *promos[(plies as usize) % promos.len()]
            } else if runner {
                // a small material search (2 plies) that likes advanced pawns and avoids ending the game,
                // so that the peer outplays the depth-1 engine and gets pawns through
                let _ = (&safe_pushes, &advance);
                stub_search(&announced, &legal, &mut rng)
            } else if !special.is_empty() && rng.chance(3, 4) {
                **rng.pick(&special)
            } else {
                let k = choose_move(&mut rng, &announced, &legal, Policy::Spicy, None);
                legal[k]
            };
            if m.ep {
                *counts.entry("peer-replied-en-passant").or_insert(0) += 1;
            }
            if m.castle.is_some() {
                *counts.entry("peer-replied-castling").or_insert(0) += 1;
            }
            if m.promo.is_some() {
                *counts.entry("peer-replied-promotion").or_insert(0) += 1;
            }
            if m.promo.is_some() && m.promo != Some(P::Queen) {
                *counts.entry("peer-replied-underpromotion").or_insert(0) += 1;
            }
            // legitimate engine chatter of several shapes before the answer
            match rng.below(4) {
                0 => println!("info depth 1 seldepth 1 multipv 1 score cp 17 nodes 20 nps 20000 time 1 pv {}", m.uci()),
                1 => {
                    println!("info depth 2 currmove {} currmovenumber 1", m.uci());
                    println!("info depth 3 seldepth 5 multipv 1 score mate 3 nodes 412 nps 41200 time 10 pv {}", m.uci());
                    *counts.entry("fault/mate-score-chatter").or_insert(0) += 1;
                }
                2 => println!("info depth 4 score cp -31 upperbound nodes 1200 pv {}", m.uci()),
                _ => println!("info depth 1 score mate -2 pv {}", m.uci()),
            }
            println!("info string bestmove is below");
            if rng.chance(1, 3) {
                let next = announced.make(&m);
                match next.legal_moves().first() {
                    Some(p) => println!("bestmove {} ponder {}", m.uci(), p.uci()),
                    None => println!("bestmove {}", m.uci()),
                }
                *counts.entry("fault/ponder-suffix").or_insert(0) += 1;
            } else {
                println!("bestmove {}", m.uci());
            }
            *counts.entry("fault/info-chatter-lines").or_insert(0) += 2;
            expected = announced_tokens.clone();
            expected.push(m.uci());
            plies += 1;
            write_log(games, plies, &violations, &counts, false);
            continue;
        }
        // setoption, uci, isready, ...: nothing to do
        if cmd == "isready" {
            println!("readyok");
        }
    }
    write_log(games, plies, &violations, &counts, true);
}

fn stub_eval(p: &Pos, me: Side) -> i32 {
    let mut score = 0i32;
    for s in 0..64u8 {
        if let Some((piece, side)) = p.sq[s as usize] {
            let r = crate::model::rank_of(s) as i32;
            let v = match piece {
                P::Pawn => 100 + 12 * if side == Side::White { r * r } else { (7 - r) * (7 - r) } / 4,
                P::Knight => 300,
                P::Bishop => 310,
                P::Rook => 500,
                P::Queen => 900,
                P::King => 0,
            };
            score += if side == me { v } else { -v };
        }
    }
    score
}

fn stub_search(pos: &Pos, legal: &[Mv], rng: &mut Rng) -> Mv {
    let me = pos.stm;
    let mut best: Vec<(i32, Mv)> = Vec::new();
    for m in legal.iter() {
        let next = pos.make(m);
        let replies = next.legal_moves();
        let value = if replies.is_empty() {
            // do not end the game: mates and stalemates are the last choice
            -50_000
        } else {
            replies.iter().map(|r| stub_eval(&next.make(r), me)).min().unwrap()
        };
        best.push((value, *m));
    }
    let top = best.iter().map(|x| x.0).max().unwrap();
    let cands: Vec<Mv> = best.iter().filter(|x| x.0 >= top - 10).map(|x| x.1).collect();
    *rng.pick(&cands)
}

pub fn gen_plan_stockfish(seed: u64, index: u64, tier: Tier) -> Plan {
    let mut knobs = std::collections::BTreeMap::new();
    knobs.insert("games".into(), if tier == Tier::Thorough { 6 } else { 2 });
    knobs.insert("rt_seed".into(), (mix(seed, index, 0x5254) >> 2) as i64);
    knobs.insert("stub_seed".into(), (mix(seed, index, 0x5342) >> 2) as i64);
    Plan {
        property: "C19".into(),
        scenario: "cli-stockfish-bridge".into(),
        seed,
        index,
        start_fen: Pos::startpos().to_fen(),
        lru: 0,
        register: false,
        knobs,
        ops: Vec::new(),
        schedule: String::new(),
    }
}

pub fn exec_stockfish(plan: &Plan) -> Outcome {
    let mut out = Outcome::default();
    let mut stats = Stats::default();
    let scratch = std::env::var("VERIF_SCRATCH").unwrap_or_else(|_| "/verif/.build/tmp".into());
    let dir = std::path::PathBuf::from(scratch).join(format!("sf-{}-{}", std::process::id(), plan.index));
    let _ = std::fs::remove_dir_all(&dir);
    if std::fs::create_dir_all(&dir).is_err() {
        out.desync = Some("cannot create scratch dir".into());
        return out;
    }
    let me = std::env::current_exe().map(|p| p.display().to_string()).unwrap_or_default();
    let wrapper = dir.join("stockfish");
    let script = format!("#!/bin/sh\nexec {} stockfish-stub\n", me);
    if std::fs::write(&wrapper, script).is_err() {
        out.desync = Some("cannot write stub wrapper".into());
        return out;
    }
    #[cfg(unix)]
    {
        use std::os::unix::fs::PermissionsExt;
        let _ = std::fs::set_permissions(&wrapper, std::fs::Permissions::from_mode(0o755));
    }
    let log = dir.join("verdict.json");
    let path = format!("{}:{}", dir.display(), std::env::var("PATH").unwrap_or_default());
    let child = Command::new(chess_bin())
        .args(["determine-stockfish-elo", "--depth", "1"])
        .env("PATH", path)
        .env("CHESS_VERIF_RT_SEED", plan.knob("rt_seed", 1).to_string())
        .env("CHESS_VERIF_LRU_CAPACITY", "4096")
        .env("VERIF_STUB_SEED", plan.knob("stub_seed", 1).to_string())
        .env("VERIF_STUB_GAMES", plan.knob("games", 2).to_string())
        .env("VERIF_STUB_LOG", log.display().to_string())
        .env_remove("RUST_LOG")
        .stdin(Stdio::null())
        .stdout(Stdio::null())
        .stderr(Stdio::piped())
        .spawn();
    let mut child = match child {
        Ok(c) => c,
        Err(e) => {
            out.desync = Some(format!("cannot start the engine: {}", e));
            return out;
        }
    };
    // watchdog: the run normally ends when the stub leaves (broken pipe on the engine side)
    let started = std::time::Instant::now();
    let mut timed_out = false;
    loop {
        match child.try_wait() {
            Ok(Some(_)) => break,
            Ok(None) => {
                // the peer has left: on end-of-file the engine's read loop spins forever (outside the
                // listed properties), so the harness ends the run itself
                let finished = std::fs::read_to_string(&log).map(|t| t.contains("\"done\": true")).unwrap_or(false);
                if finished {
                    std::thread::sleep(Duration::from_millis(50));
                    let _ = child.kill();
                    let _ = child.wait();
                    break;
                }
                if started.elapsed() > Duration::from_secs(240) {
                    timed_out = true;
                    let _ = child.kill();
                    let _ = child.wait();
                    break;
                }
                std::thread::sleep(Duration::from_millis(20));
            }
            Err(_) => break,
        }
    }
    let mut stderr = String::new();
    if let Some(mut e) = child.stderr.take() {
        use std::io::Read;
        let _ = e.read_to_string(&mut stderr);
    }
    let verdict = std::fs::read_to_string(&log).unwrap_or_default();
    let _ = std::fs::remove_dir_all(&dir);
    let parsed: Result<serde_json::Value, _> = serde_json::from_str(&verdict);
    let v = match parsed {
        Ok(v) => v,
        Err(_) => {
            out.desync = Some(format!("no verdict from the stub (timed out: {}; engine stderr: {})", timed_out, stderr.chars().take(300).collect::<String>()));
            return out;
        }
    };
    stats.add("process/games", v["games"].as_u64().unwrap_or(0));
    stats.add("process/peer-replies", v["plies"].as_u64().unwrap_or(0));
    stats.add("steps", v["plies"].as_u64().unwrap_or(0));
    if let Some(c) = v["counts"].as_object() {
        for (k, n) in c.iter() {
            let key = if k.starts_with("fault/") { k.clone() } else { format!("probe/{}", k) };
            stats.add(&key, n.as_u64().unwrap_or(0));
        }
    }
    out.oracle_evals = 1 + 2 * v["plies"].as_u64().unwrap_or(0);
    if let Some(first) = v["violations"].as_array().and_then(|a| a.first()) {
        out.violation = Some(Violation {
            class: first[0].as_str().unwrap_or("C19/process/unknown").to_string(),
            detail: first[1].as_str().unwrap_or("").to_string(),
            at_op: 0,
        });
    } else {
        // an engine panic other than the broken pipe that normally ends the run
        let panic_line = stderr.lines().find(|l| l.contains("panicked at")).map(|l| l.to_string());
        let benign = stderr.contains("Broken pipe") || stderr.contains("BrokenPipe");
        if let Some(_l) = panic_line {
            if !benign {
                let msg: String = stderr.lines().skip_while(|l| !l.contains("panicked at")).take(2).collect::<Vec<_>>().join(" ");
                out.violation = Some(Violation {
                    class: format!("C19/process/engine-panicked-on-peer-reply/{}", crate::normalise_panic_pub(msg.split(':').last().unwrap_or(""))),
                    detail: format!("engine stderr: {}", msg.chars().take(400).collect::<String>()),
                    at_op: 0,
                });
            }
        } else if timed_out && !v["done"].as_bool().unwrap_or(false) {
            out.desync = Some("engine/stub did not finish within the watchdog time".into());
        }
    }
    let mut d = Digest::new();
    d.eat(v["plies"].as_u64().unwrap_or(0));
    out.digest = d.0;
    out.stats = stats;
    out
}
