//! Seeded generation of start positions and move choices. Everything is drawn
//! from the run's PRNG and the *model's* state only, so a wrong engine can
//! never steer generation.

use crate::model::{file_of, mk_sq, move_effect, rank_of, Mv, Pos, Side, Sq, BK, BQ, P, PERFT_SUITE, WK, WQ};
use crate::prng::Rng;

/// Hand-picked start positions that are rich in the rule interactions the
/// properties name (castling both sides, en passant, promotions, pins, endings).
pub const SPECIAL_FENS: [&str; 25] = [
    "3k4/8/8/8/8/8/8/4R2K w - - 0 1",
    "r3qrk1/5ppp/8/8/8/8/5PPP/R3QRK1 w - - 0 1",
    "4r2k/8/8/8/8/8/8/4Q2K b - - 0 1",
    "r3k2r/8/8/8/8/8/8/R3K2R w KQkq - 0 1",
    "r3k2r/pppppppp/8/8/8/8/PPPPPPPP/R3K2R w KQkq - 0 1",
    "r3k2r/p6p/8/1P4P1/1p4p1/8/P6P/R3K2R w KQkq - 0 1",
    "4k3/P6P/8/8/8/8/p6p/4K3 w - - 0 1",
    "rn2k1nr/1P4P1/8/8/8/8/1p4p1/RN2K1NR w KQkq - 0 1",
    "4k3/8/8/2pPp3/2PpP3/8/8/4K3 w - - 0 1",
    "4k3/pppppppp/8/8/8/8/PPPPPPPP/4K3 w - - 0 1",
    "8/8/8/3k4/8/8/2Q1K3/8 w - - 0 1",
    "8/8/8/3k4/8/8/2R1K3/8 w - - 0 1",
    "4k3/8/8/3r4/8/2R5/4K3/R7 w - - 0 1",
    "8/5k2/8/8/8/2B5/1N6/K7 w - - 0 1",
    "k7/2Q5/8/8/8/8/8/K7 b - - 0 1",
    "7k/5Q2/6K1/8/8/8/8/8 w - - 0 1",
    "6k1/5ppp/8/8/8/8/5PPP/R5K1 w - - 0 1",
    "4r2k/4q3/8/8/8/8/5PPP/R5K1 b - - 0 1",
    "r1bqkb1r/pppp1ppp/2n2n2/4p3/2B1P3/5N2/PPPP1PPP/RNBQK2R w KQkq - 4 4",
    "rnbqkbnr/ppp1pppp/8/3pP3/8/8/PPPP1PPP/RNBQKBNR b KQkq - 0 2",
    "8/2p5/3p4/KP5r/1R3p1k/8/4P1P1/8 w - - 0 1",
    "8/8/8/8/k2Pp2Q/8/8/4K3 b - d3 0 1",
    "1N2k3/8/8/8/8/5N2/8/1N2K3 w - - 0 1",
    "Q7/8/8/8/Q7/8/8/Q3K1k1 w - - 0 1",
    "4k3/8/8/8/8/8/6p1/4K2R w K - 0 1",
];

/// Sparse endings (<= 7 pieces) used where deep searches must stay cheap.
pub const ENDGAME_FENS: [&str; 14] = [
    "4k3/8/8/3r4/8/2R5/4K3/R7 w - - 0 1",
    "8/8/8/3k4/8/8/2Q1K3/8 w - - 0 1",
    "8/8/8/3k4/8/8/2R1K3/8 w - - 0 1",
    "8/5k2/8/8/8/2B5/1N6/K7 w - - 0 1",
    "8/8/4k3/8/2n5/8/3RK3/7R w - - 0 1",
    "8/3k4/8/2b5/8/4K3/2R2B2/8 w - - 0 1",
    "8/8/3k4/8/3P4/3K4/8/8 w - - 0 1",
    "8/p7/1k6/8/8/1K6/P1R5/8 w - - 0 1",
    "6k1/8/6K1/8/8/8/8/R7 w - - 0 1",
    "8/8/8/8/8/1k6/1p6/1K1R4 b - - 0 1",
    "7k/R7/8/8/8/8/1r6/K5R1 w - - 0 1",
    "8/4k3/8/8/2q5/8/3Q4/3K4 w - - 0 1",
    "2k5/8/2K5/8/8/8/2P5/8 w - - 0 1",
    "8/8/1r2k3/8/8/3NK3/3B4/8 w - - 0 1",
];

/// Positions with no legal move (mated / stalemated) and single-reply positions.
pub const TERMINAL_FENS: [&str; 13] = [
    "k7/8/8/8/8/8/1r6/K7 w - - 0 1",                                     // single legal move (Kxb2)
    "6k1/5ppp/8/8/8/8/8/K5R1 b - - 0 1",                                 // few replies, back-rank motifs
    "5rk1/5ppp/8/8/8/8/8/K2R4 w - - 0 1",                                // quiet, rooks

    "7k/5Q2/6K1/8/8/8/8/8 b - - 0 1",                                   // stalemate
    "k7/2Q5/1K6/8/8/8/8/8 b - - 0 1",                                    // stalemate
    "6rk/5Npp/8/8/8/8/8/K7 b - - 0 1",                                   // smothered mate
    "R5k1/5ppp/8/8/8/8/8/K7 b - - 0 1",                                  // back-rank mate
    "rnb1kbnr/pppp1ppp/8/4p3/6Pq/5P2/PPPPP2P/RNBQKBNR w KQkq - 0 3",     // fool's mate
    "8/8/8/8/8/5k2/5p2/5K2 w - - 0 1",                                   // stalemate, white
    "7k/8/5K2/6Q1/8/8/8/8 w - - 0 1",                                    // mate in one available
    "k7/8/1K6/8/8/8/8/7R w - - 0 1",                                     // mate in one available
    "7k/6R1/5K2/8/8/8/8/8 b - - 0 1",                                    // single legal reply? (Kxg7 illegal) -> Kh8 stuck: stalemate-like
    "4k3/4P3/4K3/8/8/8/8/8 b - - 0 1",                                   // stalemate
];

pub fn suite_fens() -> Vec<&'static str> {
    PERFT_SUITE.iter().map(|x| x.1).collect()
}

/// A random consistent set-up position: one king per side, side not to move
/// not in check, no pawns on the back ranks, rights only where king and rook
/// are at home, optional consistent en-passant target.
pub fn random_setup(rng: &mut Rng, max_extra: usize) -> Pos {
    loop {
        let mut pos = Pos::empty();
        let wk = rng.below(64) as Sq;
        let mut bk = rng.below(64) as Sq;
        while (file_of(wk) - file_of(bk)).abs() <= 1 && (rank_of(wk) - rank_of(bk)).abs() <= 1 {
            bk = rng.below(64) as Sq;
        }
        // bias kings towards home squares so castling rights can exist
        let wk = if rng.chance(1, 3) { 4 } else { wk };
        let bk = if rng.chance(1, 3) { 60 } else { bk };
        if (file_of(wk) - file_of(bk)).abs() <= 1 && (rank_of(wk) - rank_of(bk)).abs() <= 1 {
            continue;
        }
        pos.sq[wk as usize] = Some((P::King, Side::White));
        pos.sq[bk as usize] = Some((P::King, Side::Black));
        let extra = rng.below(max_extra + 1);
        for _ in 0..extra {
            let s = rng.below(64) as Sq;
            if pos.sq[s as usize].is_some() {
                continue;
            }
            let side = if rng.chance(1, 2) { Side::White } else { Side::Black };
            let p = match rng.below(10) {
                0..=3 => P::Pawn,
                4 => P::Knight,
                5 => P::Bishop,
                6 | 7 => P::Rook,
                _ => P::Queen,
            };
            if p == P::Pawn && (rank_of(s) == 0 || rank_of(s) == 7) {
                continue;
            }
            pos.sq[s as usize] = Some((p, side));
        }
        // rooks at home, sometimes
        for (k, r, side) in [(4u8, 0u8, Side::White), (4, 7, Side::White), (60, 56, Side::Black), (60, 63, Side::Black)] {
            if pos.sq[k as usize] == Some((P::King, side)) && pos.sq[r as usize].is_none() && rng.chance(2, 3) {
                pos.sq[r as usize] = Some((P::Rook, side));
            }
        }
        pos.stm = if rng.chance(1, 2) { Side::White } else { Side::Black };
        for (bit, k, r, side) in [
            (WK, 4u8, 7u8, Side::White),
            (WQ, 4, 0, Side::White),
            (BK, 60, 63, Side::Black),
            (BQ, 60, 56, Side::Black),
        ] {
            if pos.sq[k as usize] == Some((P::King, side))
                && pos.sq[r as usize] == Some((P::Rook, side))
                && rng.chance(3, 4)
            {
                pos.rights |= bit;
            }
        }
        // optional ep target consistent with a just-made double step by stm.other()
        if rng.chance(1, 3) {
            let mover = pos.stm.other();
            let (t_rank, p_rank, b_rank) = if mover == Side::White { (2, 3, 1) } else { (5, 4, 6) };
            let f = rng.below(8) as i8;
            let t = mk_sq(f, t_rank).unwrap();
            let p = mk_sq(f, p_rank).unwrap();
            let b = mk_sq(f, b_rank).unwrap();
            if pos.sq[t as usize].is_none() && pos.sq[b as usize].is_none() && pos.sq[p as usize].is_none() {
                pos.sq[p as usize] = Some((P::Pawn, mover));
                pos.ep = Some(t);
            }
        }
        if pos.is_consistent() {
            return pos;
        }
    }
}

/// The side to move is in check while it still holds castling rights with the squares between
/// king and rook empty: castling must not be offered (nor chosen, nor accepted when typed)
/// although, with the checker far from the king's path, the king would land safely.
pub fn castle_temptation(rng: &mut Rng) -> Pos {
    loop {
        let mut pos = Pos::empty();
        let white = rng.chance(1, 2);
        let (us, them) = if white { (Side::White, Side::Black) } else { (Side::Black, Side::White) };
        let home: i8 = if white { 0 } else { 7 };
        let fwd: i8 = if white { 1 } else { -1 };
        let at = |f: i8, up: i8| mk_sq(f, home + fwd * up).unwrap();
        pos.sq[at(4, 0) as usize] = Some((P::King, us));
        let wings = rng.below(3); // 0 both, 1 queen side, 2 king side
        if wings != 2 {
            pos.sq[at(0, 0) as usize] = Some((P::Rook, us));
            pos.rights |= if white { WQ } else { BQ };
        }
        if wings != 1 {
            pos.sq[at(7, 0) as usize] = Some((P::Rook, us));
            pos.rights |= if white { WK } else { BK };
        }
        // the checker, in coordinates relative to the checked side's home rank
        let (cp, cf, cu): (P, i8, i8) = *rng.pick(&[
            (P::Knight, 2, 1),
            (P::Knight, 3, 2),
            (P::Knight, 5, 2),
            (P::Knight, 6, 1),
            (P::Bishop, 1, 3),
            (P::Bishop, 0, 4),
            (P::Bishop, 7, 3),
            (P::Queen, 7, 3),
            (P::Rook, 4, 4),
            (P::Rook, 4, 7),
            (P::Queen, 4, 6),
            (P::Pawn, 3, 1),
            (P::Pawn, 5, 1),
        ]);
        pos.sq[at(cf, cu) as usize] = Some((cp, them));
        // their king, away from ours
        let tk = at(rng.below(8) as i8, 5 + rng.below(3) as i8);
        if pos.sq[tk as usize].is_some() {
            continue;
        }
        pos.sq[tk as usize] = Some((P::King, them));
        for _ in 0..rng.below(7) {
            let sq = rng.below(64) as Sq;
            if pos.sq[sq as usize].is_some() || rank_of(sq) == home {
                continue;
            }
            let side = if rng.chance(1, 2) { us } else { them };
            let p = *rng.pick(&[P::Pawn, P::Pawn, P::Knight, P::Bishop, P::Rook, P::Queen]);
            if p == P::Pawn && (rank_of(sq) == 0 || rank_of(sq) == 7) {
                continue;
            }
            pos.sq[sq as usize] = Some((p, side));
        }
        pos.stm = us;
        if pos.is_consistent() && pos.in_check(us) && !pos.legal_moves().is_empty() {
            return pos;
        }
    }
}

/// A pawn one step from promotion with both kings nearby (queen promotions that stalemate,
/// under-promotions that win): the endings where "the queen is always best" is false.
pub fn promotion_ending(rng: &mut Rng) -> Pos {
    loop {
        let mut pos = Pos::empty();
        let white = rng.chance(1, 2);
        let f = rng.below(8) as i8;
        let (pr, promo_r) = if white { (6, 7) } else { (1, 0) };
        let pawn = mk_sq(f, pr).unwrap();
        let promo = mk_sq(f, promo_r).unwrap();
        let near = |rng: &mut Rng, c: Sq, d: i8| -> Option<Sq> {
            mk_sq(file_of(c) + rng.range(0, 2 * d as usize) as i8 - d, rank_of(c) + rng.range(0, 2 * d as usize) as i8 - d)
        };
        let (own_side, other_side) = if white { (Side::White, Side::Black) } else { (Side::Black, Side::White) };
        let ok = match (near(rng, pawn, 2), near(rng, promo, 2)) {
            (Some(k1), Some(k2)) if k1 != pawn && k2 != pawn && k1 != k2 && k2 != promo => {
                pos.sq[pawn as usize] = Some((P::Pawn, own_side));
                pos.sq[k1 as usize] = Some((P::King, own_side));
                pos.sq[k2 as usize] = Some((P::King, other_side));
                true
            }
            _ => false,
        };
        if !ok {
            continue;
        }
        if rng.chance(1, 3) {
            let s = rng.below(64) as Sq;
            if pos.sq[s as usize].is_none() {
                pos.sq[s as usize] = Some((*rng.pick(&[P::Knight, P::Bishop, P::Rook]), if rng.chance(1, 2) { Side::White } else { Side::Black }));
            }
        }
        pos.stm = if rng.chance(1, 2) { Side::White } else { Side::Black };
        if pos.is_consistent() && pos.has_legal_move() {
            return pos;
        }
    }
}

/// A promotion ending in which promoting to a queen stalemates the defender (so another
/// promotion is the right one), stepped back by one defender move so that the promotion lies
/// below the root of a search. Falls back to a plain promotion ending.
pub fn stalemate_trick_ending(rng: &mut Rng) -> Pos {
    for _ in 0..400 {
        let p = promotion_ending(rng);
        // the side that owns the pawn
        let owner = match p.sq.iter().flatten().find(|(pc, _)| *pc == P::Pawn) {
            Some((_, side)) => *side,
            None => continue,
        };
        let at = p.with_stm(owner);
        if at.in_check(owner.other()) {
            continue;
        }
        let trick = at.legal_moves().iter().any(|m| {
            m.promo == Some(P::Queen) && {
                let n = at.make(m);
                !n.has_legal_move() && !n.in_check(n.stm)
            }
        });
        if !trick {
            continue;
        }
        // step back: the defender's king came from an adjacent square
        let dk = match at.king_sq(owner.other()) {
            Some(k) => k,
            None => continue,
        };
        let mut cands: Vec<Pos> = Vec::new();
        for df in -1..=1i8 {
            for dr in -1..=1i8 {
                if let Some(from) = mk_sq(file_of(dk) + df, rank_of(dk) + dr) {
                    if from == dk || at.sq[from as usize].is_some() {
                        continue;
                    }
                    let mut prev = at.clone();
                    prev.sq[dk as usize] = None;
                    prev.sq[from as usize] = Some((P::King, owner.other()));
                    prev.stm = owner.other();
                    if prev.is_consistent() && prev.legal_moves().iter().any(|m| m.from == from && m.to == dk) {
                        cands.push(prev);
                    }
                }
            }
        }
        if !cands.is_empty() {
            return cands[rng.below(cands.len())].clone();
        }
        return at;
    }
    promotion_ending(rng)
}

/// A random sparse set-up in which the side to move has exactly one legal move.
pub fn single_reply_position(rng: &mut Rng) -> Pos {
    for _ in 0..2000 {
        let p = random_setup(rng, *rng.clone().pick(&[3usize, 4, 5, 6]));
        if p.legal_moves().len() == 1 {
            return p;
        }
    }
    Pos::from_fen("k7/8/8/8/8/8/1r6/K7 w - - 0 1").unwrap()
}

#[derive(Clone, Copy, PartialEq, Eq, Debug)]
pub enum StartKind {
    /// checkmated / stalemated / mate-in-one / single-reply positions
    Terminal,
    /// generated: exactly one legal move
    SingleReply,
    Initial,
    Suite,
    Special,
    Endgame,
    Random,
}

/// Chooses a start position; the halfmove clock always starts at 0 (a board
/// built through the editing API starts there).
pub fn choose_start(rng: &mut Rng, weights: &[(StartKind, usize)]) -> (StartKind, Pos) {
    let total: usize = weights.iter().map(|w| w.1).sum();
    let mut roll = rng.below(total);
    let mut kind = weights[0].0;
    for (k, w) in weights {
        if roll < *w {
            kind = *k;
            break;
        }
        roll -= *w;
    }
    let mut pos = match kind {
        StartKind::Terminal => Pos::from_fen(*rng.pick(&TERMINAL_FENS[..])).unwrap(),
        StartKind::SingleReply => single_reply_position(rng),
        StartKind::Initial => Pos::startpos(),
        StartKind::Suite => Pos::from_fen(*rng.pick(&suite_fens()[..])).unwrap(),
        StartKind::Special => {
            if rng.chance(1, 4) {
                castle_temptation(rng)
            } else {
                Pos::from_fen(*rng.pick(&SPECIAL_FENS[..])).unwrap()
            }
        }
        StartKind::Endgame => Pos::from_fen(*rng.pick(&ENDGAME_FENS[..])).unwrap(),
        StartKind::Random => {
            let max_extra = *rng.pick(&[2usize, 4, 6, 10, 16, 24]);
            random_setup(rng, max_extra)
        }
    };
    pos.half = 0;
    pos.plies = 0;
    debug_assert!(pos.is_consistent(), "inconsistent start {}", pos.to_fen());
    (kind, pos)
}

#[derive(Clone, Copy, PartialEq, Eq, Debug)]
pub enum Policy {
    Uniform,
    /// favours the rule interactions: double steps beside enemy pawns, ep, castling,
    /// promotions, captures on rook home squares, king/rook moves, checks
    Spicy,
    /// favours quiet non-pawn moves (lets the halfmove clock run), occasional pawn move
    Quiet,
    /// only quiet non-pawn moves whenever one exists (the halfmove clock never resets)
    Frozen,
    /// favours undoing one's previous move (out-and-back shuffles, repetitions)
    Shuffle,
    /// favours checks and moves that reduce the opponent's mobility (drives towards mates)
    Hunt,
    /// favours moves that leave the opponent exactly one (or very few) legal replies
    Squeeze,
    /// wanders with quiet piece moves and, whenever possible, steps into a placement that was
    /// already seen with the *other* side to move (tempo loss / triangulation): the look-alike
    /// that every cache keyed by a side-blind position key confuses
    Lookalike,
}

/// Placements seen so far along a generated history, with the sides that were to move there.
#[derive(Default, Clone)]
pub struct Seen {
    map: std::collections::HashMap<u64, u8>,
}

impl Seen {
    pub fn note(&mut self, p: &Pos) {
        *self.map.entry(p.placement_fingerprint()).or_insert(0) |= 1 << (p.stm as u8);
    }

    /// A legal move leading to a placement already seen with the other side to move.
    pub fn lookalike_move(&self, rng: &mut Rng, pos: &Pos, legal: &[Mv]) -> Option<usize> {
        let mut hits: Vec<usize> = Vec::new();
        for (i, m) in legal.iter().enumerate() {
            if m.piece == P::Pawn || m.capture.is_some() || m.castle.is_some() {
                continue;
            }
            let next = pos.make(m);
            if let Some(mask) = self.map.get(&next.placement_fingerprint()) {
                // seen with the side that would NOT be to move after this move
                if mask & (1 << (pos.stm as u8)) != 0 && next.rights == pos.rights {
                    hits.push(i);
                }
            }
        }
        if hits.is_empty() {
            None
        } else {
            Some(*rng.pick(&hits))
        }
    }
}

/// `choose_move` with the look-alike policy's memory.
pub fn choose_move_seen(rng: &mut Rng, pos: &Pos, legal: &[Mv], policy: Policy, last_own: Option<&Mv>, seen: &mut Seen) -> usize {
    seen.note(pos);
    if policy == Policy::Lookalike {
        if rng.chance(4, 5) {
            if let Some(k) = seen.lookalike_move(rng, pos, legal) {
                return k;
            }
        }
        return choose_move(rng, pos, legal, Policy::Frozen, last_own);
    }
    choose_move(rng, pos, legal, policy, last_own)
}

fn spicy_weight(pos: &Pos, m: &Mv) -> usize {
    let mut w = 2;
    if m.double {
        w += 4;
        // enemy pawn beside the destination => a live en-passant opportunity
        for df in [-1, 1] {
            if let Some(s) = mk_sq(file_of(m.to) + df, rank_of(m.to)) {
                if pos.sq[s as usize] == Some((P::Pawn, pos.stm.other())) {
                    w += 30;
                }
            }
        }
    }
    if m.ep {
        w += 60;
    }
    if m.castle.is_some() {
        w += 40;
    }
    if m.promo.is_some() {
        w += 12;
    }
    if m.capture.is_some() {
        w += 4;
        if [0u8, 7, 56, 63].contains(&m.to) {
            w += 40;
        }
    }
    if m.piece == P::King || (m.piece == P::Rook && [0u8, 7, 56, 63].contains(&m.from)) {
        w += 6;
    }
    w
}

/// Index (in model move order) of the chosen move.
pub fn choose_move(rng: &mut Rng, pos: &Pos, legal: &[Mv], policy: Policy, last_own: Option<&Mv>) -> usize {
    debug_assert!(!legal.is_empty());
    let weights: Vec<usize> = match policy {
        Policy::Uniform | Policy::Lookalike => vec![1; legal.len()],
        Policy::Spicy => legal.iter().map(|m| spicy_weight(pos, m)).collect(),
        Policy::Quiet => legal
            .iter()
            .map(|m| {
                if m.piece != P::Pawn && m.capture.is_none() {
                    40
                } else if m.piece == P::Pawn && m.capture.is_none() {
                    2
                } else {
                    1
                }
            })
            .collect(),
        Policy::Frozen => {
            let any_quiet = legal.iter().any(|m| m.piece != P::Pawn && m.capture.is_none());
            legal
                .iter()
                .map(|m| if !any_quiet || (m.piece != P::Pawn && m.capture.is_none()) { 1 } else { 0 })
                .collect()
        }
        Policy::Shuffle => legal
            .iter()
            .map(|m| {
                let back = last_own.map_or(false, |l| l.to == m.from && l.from == m.to && m.capture.is_none());
                if back {
                    200
                } else if m.piece != P::Pawn && m.capture.is_none() {
                    10
                } else {
                    1
                }
            })
            .collect(),
        Policy::Squeeze => legal
            .iter()
            .map(|m| match pos.make(m).legal_moves().len() {
                0 => 2,
                1 => 600,
                2 | 3 => 40,
                _ => 1,
            })
            .collect(),
        Policy::Hunt => legal
            .iter()
            .map(|m| match move_effect(pos, m) {
                2 => 400,
                1 => 40,
                _ => {
                    if m.capture.is_some() {
                        6
                    } else {
                        2
                    }
                }
            })
            .collect(),
    };
    let total: usize = weights.iter().sum();
    let mut roll = rng.below(total);
    for (i, w) in weights.iter().enumerate() {
        if roll < *w {
            return i;
        }
        roll -= *w;
    }
    legal.len() - 1
}
