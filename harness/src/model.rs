//! refchess — the executable reference model. Mailbox board, pseudo-legal
//! generation + attack test for legality, copy-make, ray-walk attacks, perft,
//! SAN writer, lenient SAN reader, UCI text. Shares no code with the engine.

use std::fmt::Write as _;

pub type Sq = u8; // 0..63, a1 = 0, b1 = 1, ..., h8 = 63 (file = sq % 8, rank = sq / 8)

#[derive(Clone, Copy, PartialEq, Eq, Hash, Debug, PartialOrd, Ord)]
pub enum P {
    Pawn = 0,
    Knight = 1,
    Bishop = 2,
    Rook = 3,
    Queen = 4,
    King = 5,
}

pub const ALL_P: [P; 6] = [P::Pawn, P::Knight, P::Bishop, P::Rook, P::Queen, P::King];
pub const PROMOS: [P; 4] = [P::Queen, P::Rook, P::Bishop, P::Knight];

#[derive(Clone, Copy, PartialEq, Eq, Hash, Debug, PartialOrd, Ord)]
pub enum Side {
    Black = 0,
    White = 1,
}

impl Side {
    pub fn other(self) -> Side {
        match self {
            Side::White => Side::Black,
            Side::Black => Side::White,
        }
    }
}

// Castling-right bits (same numeric convention as the engine's public constants).
pub const WK: u8 = 0b1000;
pub const BK: u8 = 0b0100;
pub const WQ: u8 = 0b0010;
pub const BQ: u8 = 0b0001;

#[derive(Clone, PartialEq, Eq, Hash, Debug)]
pub struct Pos {
    pub sq: [Option<(P, Side)>; 64],
    pub stm: Side,
    pub rights: u8,
    pub ep: Option<Sq>,
    /// plies since the last capture or pawn move
    pub half: u32,
    /// plies made since the start position of the run
    pub plies: u32,
}

#[derive(Clone, Copy, PartialEq, Eq, Hash, Debug, PartialOrd, Ord)]
pub struct Mv {
    pub from: Sq,
    pub to: Sq,
    pub piece: P,
    pub capture: Option<P>,
    pub promo: Option<P>,
    pub ep: bool,
    /// Some(true) = king side, Some(false) = queen side
    pub castle: Option<bool>,
    pub double: bool,
}

pub fn file_of(s: Sq) -> i8 {
    (s % 8) as i8
}
pub fn rank_of(s: Sq) -> i8 {
    (s / 8) as i8
}
pub fn mk_sq(file: i8, rank: i8) -> Option<Sq> {
    if (0..8).contains(&file) && (0..8).contains(&rank) {
        Some((rank * 8 + file) as Sq)
    } else {
        None
    }
}
pub fn sq_name(s: Sq) -> String {
    format!("{}{}", (b'a' + s % 8) as char, (b'1' + s / 8) as char)
}
pub fn parse_sq(t: &str) -> Option<Sq> {
    let b = t.as_bytes();
    if b.len() != 2 || !(b'a'..=b'h').contains(&b[0]) || !(b'1'..=b'8').contains(&b[1]) {
        return None;
    }
    Some((b[1] - b'1') * 8 + (b[0] - b'a'))
}

const KNIGHT_D: [(i8, i8); 8] = [(1, 2), (2, 1), (2, -1), (1, -2), (-1, -2), (-2, -1), (-2, 1), (-1, 2)];
const KING_D: [(i8, i8); 8] = [(1, 0), (1, 1), (0, 1), (-1, 1), (-1, 0), (-1, -1), (0, -1), (1, -1)];
const ROOK_D: [(i8, i8); 4] = [(1, 0), (-1, 0), (0, 1), (0, -1)];
const BISHOP_D: [(i8, i8); 4] = [(1, 1), (1, -1), (-1, 1), (-1, -1)];

pub fn piece_char(p: P, s: Side) -> char {
    let c = match p {
        P::Pawn => 'p',
        P::Knight => 'n',
        P::Bishop => 'b',
        P::Rook => 'r',
        P::Queen => 'q',
        P::King => 'k',
    };
    if s == Side::White {
        c.to_ascii_uppercase()
    } else {
        c
    }
}

pub fn piece_letter(p: P) -> &'static str {
    match p {
        P::Pawn => "",
        P::Knight => "N",
        P::Bishop => "B",
        P::Rook => "R",
        P::Queen => "Q",
        P::King => "K",
    }
}

impl Pos {
    pub fn empty() -> Pos {
        Pos {
            sq: [None; 64],
            stm: Side::White,
            rights: 0,
            ep: None,
            half: 0,
            plies: 0,
        }
    }

    pub fn startpos() -> Pos {
        Pos::from_fen("rnbqkbnr/pppppppp/8/8/8/8/PPPPPPPP/RNBQKBNR w KQkq - 0 1").unwrap()
    }

    /// FEN parser (halfmove field honoured; fullmove ignored, `plies` = 0).
    pub fn from_fen(fen: &str) -> Option<Pos> {
        let mut it = fen.split_whitespace();
        let placement = it.next()?;
        let stm = it.next().unwrap_or("w");
        let rights = it.next().unwrap_or("-");
        let ep = it.next().unwrap_or("-");
        let half = it.next().unwrap_or("0");
        let mut pos = Pos::empty();
        let mut rank: i8 = 7;
        let mut file: i8 = 0;
        for c in placement.chars() {
            match c {
                '/' => {
                    rank -= 1;
                    file = 0;
                }
                '1'..='8' => file += c as i8 - b'0' as i8,
                _ => {
                    let side = if c.is_ascii_uppercase() { Side::White } else { Side::Black };
                    let p = match c.to_ascii_lowercase() {
                        'p' => P::Pawn,
                        'n' => P::Knight,
                        'b' => P::Bishop,
                        'r' => P::Rook,
                        'q' => P::Queen,
                        'k' => P::King,
                        _ => return None,
                    };
                    pos.sq[mk_sq(file, rank)? as usize] = Some((p, side));
                    file += 1;
                }
            }
        }
        pos.stm = if stm == "b" { Side::Black } else { Side::White };
        for c in rights.chars() {
            pos.rights |= match c {
                'K' => WK,
                'Q' => WQ,
                'k' => BK,
                'q' => BQ,
                _ => 0,
            };
        }
        pos.ep = parse_sq(ep);
        pos.half = half.parse().unwrap_or(0);
        Some(pos)
    }

    pub fn to_fen(&self) -> String {
        let mut s = String::new();
        for rank in (0..8).rev() {
            let mut empty = 0;
            for file in 0..8 {
                match self.sq[(rank * 8 + file) as usize] {
                    None => empty += 1,
                    Some((p, side)) => {
                        if empty > 0 {
                            let _ = write!(s, "{}", empty);
                            empty = 0;
                        }
                        s.push(piece_char(p, side));
                    }
                }
            }
            if empty > 0 {
                let _ = write!(s, "{}", empty);
            }
            if rank > 0 {
                s.push('/');
            }
        }
        s.push(' ');
        s.push(if self.stm == Side::White { 'w' } else { 'b' });
        s.push(' ');
        if self.rights == 0 {
            s.push('-');
        } else {
            for (bit, c) in [(WK, 'K'), (WQ, 'Q'), (BK, 'k'), (BQ, 'q')] {
                if self.rights & bit != 0 {
                    s.push(c);
                }
            }
        }
        s.push(' ');
        match self.ep {
            Some(e) => s.push_str(&sq_name(e)),
            None => s.push('-'),
        }
        let _ = write!(s, " {} {}", self.half, 1 + self.plies / 2);
        s
    }

    pub fn king_sq(&self, side: Side) -> Option<Sq> {
        (0..64u8).find(|&s| self.sq[s as usize] == Some((P::King, side)))
    }

    pub fn piece_count(&self) -> usize {
        self.sq.iter().filter(|x| x.is_some()).count()
    }

    /// Is `target` attacked by any piece of `by`?
    pub fn attacked(&self, target: Sq, by: Side) -> bool {
        let (tf, tr) = (file_of(target), rank_of(target));
        // pawns
        let pr = if by == Side::White { tr - 1 } else { tr + 1 };
        for df in [-1, 1] {
            if let Some(s) = mk_sq(tf + df, pr) {
                if self.sq[s as usize] == Some((P::Pawn, by)) {
                    return true;
                }
            }
        }
        for (df, dr) in KNIGHT_D {
            if let Some(s) = mk_sq(tf + df, tr + dr) {
                if self.sq[s as usize] == Some((P::Knight, by)) {
                    return true;
                }
            }
        }
        for (df, dr) in KING_D {
            if let Some(s) = mk_sq(tf + df, tr + dr) {
                if self.sq[s as usize] == Some((P::King, by)) {
                    return true;
                }
            }
        }
        for (dirs, a, b) in [(&ROOK_D, P::Rook, P::Queen), (&BISHOP_D, P::Bishop, P::Queen)] {
            for &(df, dr) in dirs.iter() {
                let (mut f, mut r) = (tf + df, tr + dr);
                while let Some(s) = mk_sq(f, r) {
                    if let Some((p, side)) = self.sq[s as usize] {
                        if side == by && (p == a || p == b) {
                            return true;
                        }
                        break;
                    }
                    f += df;
                    r += dr;
                }
            }
        }
        false
    }

    pub fn in_check(&self, side: Side) -> bool {
        match self.king_sq(side) {
            Some(k) => self.attacked(k, side.other()),
            None => false,
        }
    }

    /// Squares attacked by a single piece standing on `from` (ray walk up to
    /// and including the first occupied square; pawns: both diagonals).
    pub fn piece_attacks(&self, from: Sq) -> u64 {
        let (p, side) = match self.sq[from as usize] {
            Some(x) => x,
            None => return 0,
        };
        let (f0, r0) = (file_of(from), rank_of(from));
        let mut out = 0u64;
        match p {
            P::Pawn => {
                let dr = if side == Side::White { 1 } else { -1 };
                for df in [-1, 1] {
                    if let Some(s) = mk_sq(f0 + df, r0 + dr) {
                        out |= 1 << s;
                    }
                }
            }
            P::Knight => {
                for (df, dr) in KNIGHT_D {
                    if let Some(s) = mk_sq(f0 + df, r0 + dr) {
                        out |= 1 << s;
                    }
                }
            }
            P::King => {
                for (df, dr) in KING_D {
                    if let Some(s) = mk_sq(f0 + df, r0 + dr) {
                        out |= 1 << s;
                    }
                }
            }
            _ => {
                let mut dirs: Vec<(i8, i8)> = Vec::new();
                if p == P::Rook || p == P::Queen {
                    dirs.extend(ROOK_D);
                }
                if p == P::Bishop || p == P::Queen {
                    dirs.extend(BISHOP_D);
                }
                for (df, dr) in dirs {
                    let (mut f, mut r) = (f0 + df, r0 + dr);
                    while let Some(s) = mk_sq(f, r) {
                        out |= 1 << s;
                        if self.sq[s as usize].is_some() {
                            break;
                        }
                        f += df;
                        r += dr;
                    }
                }
            }
        }
        out
    }

    fn push_pawn_moves(&self, from: Sq, to: Sq, capture: Option<P>, out: &mut Vec<Mv>) {
        let last = if self.stm == Side::White { 7 } else { 0 };
        if rank_of(to) == last {
            for promo in PROMOS {
                out.push(Mv {
                    from,
                    to,
                    piece: P::Pawn,
                    capture,
                    promo: Some(promo),
                    ep: false,
                    castle: None,
                    double: false,
                });
            }
        } else {
            out.push(Mv {
                from,
                to,
                piece: P::Pawn,
                capture,
                promo: None,
                ep: false,
                castle: None,
                double: false,
            });
        }
    }

    pub fn pseudo_moves(&self) -> Vec<Mv> {
        let me = self.stm;
        let mut out = Vec::with_capacity(48);
        for from in 0..64u8 {
            let (p, side) = match self.sq[from as usize] {
                Some(x) => x,
                None => continue,
            };
            if side != me {
                continue;
            }
            let (f0, r0) = (file_of(from), rank_of(from));
            match p {
                P::Pawn => {
                    let dr = if me == Side::White { 1 } else { -1 };
                    let start = if me == Side::White { 1 } else { 6 };
                    if let Some(one) = mk_sq(f0, r0 + dr) {
                        if self.sq[one as usize].is_none() {
                            self.push_pawn_moves(from, one, None, &mut out);
                            if r0 == start {
                                let two = mk_sq(f0, r0 + 2 * dr).unwrap();
                                if self.sq[two as usize].is_none() {
                                    out.push(Mv {
                                        from,
                                        to: two,
                                        piece: P::Pawn,
                                        capture: None,
                                        promo: None,
                                        ep: false,
                                        castle: None,
                                        double: true,
                                    });
                                }
                            }
                        }
                    }
                    for df in [-1, 1] {
                        if let Some(to) = mk_sq(f0 + df, r0 + dr) {
                            match self.sq[to as usize] {
                                Some((cp, cs)) if cs != me => {
                                    self.push_pawn_moves(from, to, Some(cp), &mut out)
                                }
                                None if self.ep == Some(to) => {
                                    // the captured pawn stands beside the capturer
                                    let victim = mk_sq(f0 + df, r0).unwrap();
                                    if self.sq[victim as usize] == Some((P::Pawn, me.other())) {
                                        out.push(Mv {
                                            from,
                                            to,
                                            piece: P::Pawn,
                                            capture: Some(P::Pawn),
                                            promo: None,
                                            ep: true,
                                            castle: None,
                                            double: false,
                                        });
                                    }
                                }
                                _ => {}
                            }
                        }
                    }
                }
                P::Knight | P::King => {
                    let dirs = if p == P::Knight { &KNIGHT_D } else { &KING_D };
                    for &(df, dr) in dirs.iter() {
                        if let Some(to) = mk_sq(f0 + df, r0 + dr) {
                            match self.sq[to as usize] {
                                Some((_, cs)) if cs == me => {}
                                other => out.push(Mv {
                                    from,
                                    to,
                                    piece: p,
                                    capture: other.map(|x| x.0),
                                    promo: None,
                                    ep: false,
                                    castle: None,
                                    double: false,
                                }),
                            }
                        }
                    }
                }
                _ => {
                    let mut dirs: Vec<(i8, i8)> = Vec::new();
                    if p == P::Rook || p == P::Queen {
                        dirs.extend(ROOK_D);
                    }
                    if p == P::Bishop || p == P::Queen {
                        dirs.extend(BISHOP_D);
                    }
                    for (df, dr) in dirs {
                        let (mut f, mut r) = (f0 + df, r0 + dr);
                        while let Some(to) = mk_sq(f, r) {
                            match self.sq[to as usize] {
                                Some((_, cs)) if cs == me => break,
                                Some((cp, _)) => {
                                    out.push(Mv {
                                        from,
                                        to,
                                        piece: p,
                                        capture: Some(cp),
                                        promo: None,
                                        ep: false,
                                        castle: None,
                                        double: false,
                                    });
                                    break;
                                }
                                None => out.push(Mv {
                                    from,
                                    to,
                                    piece: p,
                                    capture: None,
                                    promo: None,
                                    ep: false,
                                    castle: None,
                                    double: false,
                                }),
                            }
                            f += df;
                            r += dr;
                        }
                    }
                }
            }
        }
        // castling
        let (home_rank, kbit, qbit) = if me == Side::White { (0, WK, WQ) } else { (7, BK, BQ) };
        let e = mk_sq(4, home_rank).unwrap();
        if self.sq[e as usize] == Some((P::King, me)) && !self.attacked(e, me.other()) {
            let sqr = |f: i8| mk_sq(f, home_rank).unwrap();
            if self.rights & kbit != 0
                && self.sq[sqr(7) as usize] == Some((P::Rook, me))
                && self.sq[sqr(5) as usize].is_none()
                && self.sq[sqr(6) as usize].is_none()
                && !self.attacked(sqr(5), me.other())
                && !self.attacked(sqr(6), me.other())
            {
                out.push(Mv {
                    from: e,
                    to: sqr(6),
                    piece: P::King,
                    capture: None,
                    promo: None,
                    ep: false,
                    castle: Some(true),
                    double: false,
                });
            }
            if self.rights & qbit != 0
                && self.sq[sqr(0) as usize] == Some((P::Rook, me))
                && self.sq[sqr(1) as usize].is_none()
                && self.sq[sqr(2) as usize].is_none()
                && self.sq[sqr(3) as usize].is_none()
                && !self.attacked(sqr(3), me.other())
                && !self.attacked(sqr(2), me.other())
            {
                out.push(Mv {
                    from: e,
                    to: sqr(2),
                    piece: P::King,
                    capture: None,
                    promo: None,
                    ep: false,
                    castle: Some(false),
                    double: false,
                });
            }
        }
        out
    }

    /// Successor position (side to move flips).
    pub fn make(&self, m: &Mv) -> Pos {
        let mut n = self.clone();
        let me = self.stm;
        n.sq[m.from as usize] = None;
        if m.ep {
            let victim = mk_sq(file_of(m.to), rank_of(m.from)).unwrap();
            n.sq[victim as usize] = None;
        }
        n.sq[m.to as usize] = Some((m.promo.unwrap_or(m.piece), me));
        if let Some(kingside) = m.castle {
            let r = rank_of(m.from);
            let (rf, rt) = if kingside { (7, 5) } else { (0, 3) };
            n.sq[mk_sq(rf, r).unwrap() as usize] = None;
            n.sq[mk_sq(rt, r).unwrap() as usize] = Some((P::Rook, me));
        }
        // rights
        let mut lost = 0u8;
        for s in [m.from, m.to] {
            lost |= match s {
                0 => WQ,
                7 => WK,
                56 => BQ,
                63 => BK,
                4 => WK | WQ,
                60 => BK | BQ,
                _ => 0,
            };
        }
        n.rights &= !lost;
        n.ep = if m.double { Some((m.from + m.to) / 2) } else { None };
        n.half = if m.piece == P::Pawn || m.capture.is_some() { 0 } else { self.half + 1 };
        n.plies = self.plies + 1;
        n.stm = me.other();
        n
    }

    pub fn legal_moves(&self) -> Vec<Mv> {
        let me = self.stm;
        self.pseudo_moves()
            .into_iter()
            .filter(|m| {
                let n = self.make(m);
                !n.in_check(me)
            })
            .collect()
    }

    pub fn has_legal_move(&self) -> bool {
        let me = self.stm;
        self.pseudo_moves().iter().any(|m| !self.make(m).in_check(me))
    }

    pub fn perft(&self, depth: u32) -> u64 {
        if depth == 0 {
            return 1;
        }
        let moves = self.legal_moves();
        if depth == 1 {
            return moves.len() as u64;
        }
        moves.iter().map(|m| self.make(m).perft(depth - 1)).sum()
    }

    /// The same position with the other side to move (the engine keeps whose turn it is
    /// outside the position; some queries are asked "for both colours").
    pub fn with_stm(&self, side: Side) -> Pos {
        let mut n = self.clone();
        n.stm = side;
        n
    }

    /// 64-bit fingerprint of (placement, side, rights, ep) — FNV-1a.
    pub fn fingerprint(&self) -> u64 {
        let mut h: u64 = 0xcbf29ce484222325;
        let mut eat = |b: u8| {
            h ^= b as u64;
            h = h.wrapping_mul(0x100000001b3);
        };
        for s in 0..64 {
            eat(match self.sq[s] {
                None => 0,
                Some((p, side)) => 1 + p as u8 + 6 * side as u8,
            });
        }
        eat(self.stm as u8);
        eat(self.rights);
        eat(self.ep.map_or(255, |e| e));
        h
    }

    /// Fingerprint of placement only.
    pub fn placement_fingerprint(&self) -> u64 {
        let mut h: u64 = 0xcbf29ce484222325;
        for s in 0..64 {
            let b = match self.sq[s] {
                None => 0,
                Some((p, side)) => 1 + p as u8 + 6 * side as u8,
            };
            h ^= b as u64;
            h = h.wrapping_mul(0x100000001b3);
        }
        h
    }

    /// Basic consistency of a set-up position (used by the generator).
    pub fn is_consistent(&self) -> bool {
        let wk = self.sq.iter().filter(|x| **x == Some((P::King, Side::White))).count();
        let bk = self.sq.iter().filter(|x| **x == Some((P::King, Side::Black))).count();
        if wk != 1 || bk != 1 {
            return false;
        }
        for s in 0..64u8 {
            if let Some((P::Pawn, _)) = self.sq[s as usize] {
                if rank_of(s) == 0 || rank_of(s) == 7 {
                    return false;
                }
            }
        }
        if self.in_check(self.stm.other()) {
            return false;
        }
        let need = |bit: u8, k: Sq, r: Sq, side: Side| {
            self.rights & bit == 0
                || (self.sq[k as usize] == Some((P::King, side)) && self.sq[r as usize] == Some((P::Rook, side)))
        };
        if !(need(WK, 4, 7, Side::White)
            && need(WQ, 4, 0, Side::White)
            && need(BK, 60, 63, Side::Black)
            && need(BQ, 60, 56, Side::Black))
        {
            return false;
        }
        if let Some(e) = self.ep {
            // the side that just moved is stm.other(); its pawn stands in front of the target
            let mover = self.stm.other();
            let (want_rank, pawn_rank, behind_rank) = if mover == Side::White { (2, 3, 1) } else { (5, 4, 6) };
            if rank_of(e) != want_rank {
                return false;
            }
            let f = file_of(e);
            if self.sq[e as usize].is_some()
                || self.sq[mk_sq(f, pawn_rank).unwrap() as usize] != Some((P::Pawn, mover))
                || self.sq[mk_sq(f, behind_rank).unwrap() as usize].is_some()
            {
                return false;
            }
        }
        true
    }
}

impl Mv {
    pub fn uci(&self) -> String {
        let mut s = format!("{}{}", sq_name(self.from), sq_name(self.to));
        if let Some(p) = self.promo {
            s.push(match p {
                P::Queen => 'q',
                P::Rook => 'r',
                P::Bishop => 'b',
                _ => 'n',
            });
        }
        s
    }
}

#[derive(Clone, Copy, PartialEq, Eq, Debug)]
pub enum Verdict {
    Ongoing,
    Checkmate,
    Stalemate,
}

pub fn verdict(pos: &Pos) -> Verdict {
    if !pos.legal_moves().is_empty() {
        Verdict::Ongoing
    } else if pos.in_check(pos.stm) {
        Verdict::Checkmate
    } else {
        Verdict::Stalemate
    }
}

/// 0 = none, 1 = check, 2 = checkmate — for the position after `m`.
pub fn move_effect(pos: &Pos, m: &Mv) -> u8 {
    let n = pos.make(m);
    if n.in_check(n.stm) {
        if n.legal_moves().is_empty() {
            2
        } else {
            1
        }
    } else {
        0
    }
}

/// Canonical SAN (FIDE disambiguation among legal moves).
pub fn san(pos: &Pos, m: &Mv, legal: &[Mv]) -> String {
    let suffix = match move_effect(pos, m) {
        2 => "#",
        1 => "+",
        _ => "",
    };
    if let Some(k) = m.castle {
        return format!("{}{}", if k { "O-O" } else { "O-O-O" }, suffix);
    }
    let mut s = String::new();
    if m.piece == P::Pawn {
        if m.capture.is_some() {
            s.push((b'a' + m.from % 8) as char);
        }
    } else {
        s.push_str(piece_letter(m.piece));
        let others: Vec<&Mv> = legal
            .iter()
            .filter(|o| o.piece == m.piece && o.to == m.to && o.from != m.from)
            .collect();
        if !others.is_empty() {
            let same_file = others.iter().any(|o| file_of(o.from) == file_of(m.from));
            let same_rank = others.iter().any(|o| rank_of(o.from) == rank_of(m.from));
            if !same_file {
                s.push((b'a' + m.from % 8) as char);
            } else if !same_rank {
                s.push((b'1' + m.from / 8) as char);
            } else {
                s.push_str(&sq_name(m.from));
            }
        }
    }
    if m.capture.is_some() {
        s.push('x');
    }
    s.push_str(&sq_name(m.to));
    if let Some(p) = m.promo {
        s.push('=');
        s.push_str(piece_letter(p));
    }
    s.push_str(suffix);
    s
}

/// Lenient SAN reading: could `text` plausibly denote move `m`? Suffix optional
/// or wrong-but-present tolerated only if absent; over-disambiguation tolerated;
/// the capture mark is optional. Used to build the MUST-REJECT class: a text that
/// is a lenient reading of no legal move must be rejected.
pub fn san_lenient_matches(pos: &Pos, m: &Mv, text: &str) -> bool {
    let t = text.trim_end_matches(['+', '#']);
    if let Some(k) = m.castle {
        return t == if k { "O-O" } else { "O-O-O" } || t == if k { "0-0" } else { "0-0-0" };
    }
    let _ = pos;
    let mut body = t.to_string();
    // promotion part
    let mut promo: Option<P> = None;
    if let Some(idx) = body.find('=') {
        promo = match &body[idx + 1..] {
            "Q" => Some(P::Queen),
            "R" => Some(P::Rook),
            "B" => Some(P::Bishop),
            "N" => Some(P::Knight),
            _ => return false,
        };
        body.truncate(idx);
    }
    if promo != m.promo {
        return false;
    }
    let bytes = body.as_bytes();
    if bytes.len() < 2 {
        return false;
    }
    let dest = match parse_sq(&body[bytes.len() - 2..]) {
        Some(d) => d,
        None => return false,
    };
    if dest != m.to {
        return false;
    }
    let mut rest = &body[..bytes.len() - 2];
    if let Some(stripped) = rest.strip_suffix('x') {
        rest = stripped;
    }
    let (letter, hint) = match rest.chars().next() {
        Some(c) if "NBRQK".contains(c) => (c.to_string(), &rest[1..]),
        _ => (String::new(), rest),
    };
    if letter != piece_letter(m.piece) {
        return false;
    }
    // hint: "", file, rank, or square — each present component must agree
    for c in hint.chars() {
        if ('a'..='h').contains(&c) {
            if (b'a' + m.from % 8) as char != c {
                return false;
            }
        } else if ('1'..='8').contains(&c) {
            if (b'1' + m.from / 8) as char != c {
                return false;
            }
        } else {
            return false;
        }
    }
    hint.len() <= 2
}

/// Published perft values used to validate the model before any check trusts it.
pub const PERFT_SUITE: [(&str, &str, [u64; 4]); 6] = [
    ("startpos", "rnbqkbnr/pppppppp/8/8/8/8/PPPPPPPP/RNBQKBNR w KQkq - 0 1", [20, 400, 8902, 197281]),
    ("kiwipete", "r3k2r/p1ppqpb1/bn2pnp1/3PN3/1p2P3/2N2Q1p/PPPBBPPP/R3K2R w KQkq - 0 1", [48, 2039, 97862, 4085603]),
    ("pos3", "8/2p5/3p4/KP5r/1R3p1k/8/4P1P1/8 w - - 0 1", [14, 191, 2812, 43238]),
    ("pos4", "r3k2r/Pppp1ppp/1b3nbN/nP6/BBP1P3/q4N2/Pp1P2PP/R2Q1RK1 w kq - 0 1", [6, 264, 9467, 422333]),
    ("pos5", "rnbq1k1r/pp1Pbppp/2p5/8/2B5/8/PPP1NnPP/RNBQK2R w KQ - 1 8", [44, 1486, 62379, 2103487]),
    ("pos6", "r4rk1/1pp1qppp/p1np1n2/2b1p1B1/2B1P1b1/P1NP1N2/1PP1QPPP/R4RK1 w - - 0 10", [46, 2079, 89890, 3894594]),
];

/// Self-test of the model against the published perft tables. `deep` adds depth 4.
pub fn self_test(deep: bool) -> Result<(), String> {
    for (name, fen, expect) in PERFT_SUITE.iter() {
        let pos = Pos::from_fen(fen).ok_or_else(|| format!("bad fen {}", name))?;
        let max = if deep { 4 } else { 3 };
        for d in 1..=max {
            let got = pos.perft(d as u32);
            if got != expect[d - 1] {
                return Err(format!("model perft({}) of {} = {}, published {}", d, name, got, expect[d - 1]));
            }
        }
        if pos.to_fen().split(' ').take(4).collect::<Vec<_>>() != fen.split(' ').take(4).collect::<Vec<_>>() {
            return Err(format!("fen round trip failed for {}", name));
        }
    }
    // SAN spot checks
    let p = Pos::from_fen("4k3/8/8/8/8/5N2/8/1N2K3 w - - 0 1").unwrap();
    let legal = p.legal_moves();
    let labels: Vec<String> = legal.iter().map(|m| san(&p, m, &legal)).collect();
    if !labels.contains(&"Nbd2".to_string()) || !labels.contains(&"Nfd2".to_string()) {
        return Err(format!("model SAN disambiguation wrong: {:?}", labels));
    }
    Ok(())
}
