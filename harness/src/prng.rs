//! The only source of randomness in the simulator: xoshiro256** seeded through
//! SplitMix64. Every choice of a run derives from `(VERIF_SEED, run index)`.

#[derive(Clone, Debug)]
pub struct Rng {
    s: [u64; 4],
}

pub fn splitmix(state: &mut u64) -> u64 {
    *state = state.wrapping_add(0x9E37_79B9_7F4A_7C15);
    let mut z = *state;
    z = (z ^ (z >> 30)).wrapping_mul(0xBF58_476D_1CE4_E5B9);
    z = (z ^ (z >> 27)).wrapping_mul(0x94D0_49BB_1331_11EB);
    z ^ (z >> 31)
}

/// Mixes the batch seed with a run index (and a stream tag) into a run seed.
pub fn mix(seed: u64, index: u64, tag: u64) -> u64 {
    let mut st = seed ^ index.wrapping_mul(0xD6E8_FEB8_6659_FD93) ^ tag.wrapping_mul(0xA076_1D64_78BD_642F);
    splitmix(&mut st);
    splitmix(&mut st)
}

impl Rng {
    pub fn new(seed: u64) -> Rng {
        let mut st = seed;
        let s = [splitmix(&mut st), splitmix(&mut st), splitmix(&mut st), splitmix(&mut st)];
        Rng { s }
    }

    pub fn next(&mut self) -> u64 {
        let result = self.s[1].wrapping_mul(5).rotate_left(7).wrapping_mul(9);
        let t = self.s[1] << 17;
        self.s[2] ^= self.s[0];
        self.s[3] ^= self.s[1];
        self.s[1] ^= self.s[2];
        self.s[0] ^= self.s[3];
        self.s[2] ^= t;
        self.s[3] = self.s[3].rotate_left(45);
        result
    }

    /// uniform in 0..n (n > 0)
    pub fn below(&mut self, n: usize) -> usize {
        debug_assert!(n > 0);
        ((self.next() >> 11) % n as u64) as usize
    }

    pub fn range(&mut self, lo: usize, hi_inclusive: usize) -> usize {
        lo + self.below(hi_inclusive - lo + 1)
    }

    /// true with probability num/den
    pub fn chance(&mut self, num: usize, den: usize) -> bool {
        self.below(den) < num
    }

    pub fn pick<'a, T>(&mut self, items: &'a [T]) -> &'a T {
        debug_assert!(!items.is_empty());
        &items[self.below(items.len())]
    }

    pub fn shuffle<T>(&mut self, items: &mut [T]) {
        for i in (1..items.len()).rev() {
            let j = self.below(i + 1);
            items.swap(i, j);
        }
    }
}

/// FNV-style running digest of everything a run observed; two executions of the
/// same plan must produce the same digest (determinism self-test).
#[derive(Clone, Copy, Debug)]
pub struct Digest(pub u64);

impl Digest {
    pub fn new() -> Digest {
        Digest(0xcbf29ce484222325)
    }
    pub fn eat(&mut self, v: u64) {
        let mut h = self.0;
        for i in 0..8 {
            h ^= (v >> (8 * i)) & 0xff;
            h = h.wrapping_mul(0x100000001b3);
        }
        self.0 = h;
    }
    pub fn eat_str(&mut self, s: &str) {
        for b in s.bytes() {
            self.0 ^= b as u64;
            self.0 = self.0.wrapping_mul(0x100000001b3);
        }
    }
}
